//! Miri scenarios for C18 (second engine, DESIGN §3.8). Tiny programs that share Regex
//! objects between real std threads; Miri's seeded preemptive scheduler picks the
//! interleaving (one seed = one schedule) and its detectors report data races, deadlocks
//! and UB. Each scenario also asserts that every result equals the result of the same call
//! made where no other thread was running. A mismatch panics with the marker C18-MISMATCH.
//!
//! Patterns use literals, small classes and block escapes only: general-category sets are
//! two orders of magnitude slower under Miri.

use regexml::Regex;
use std::sync::Arc;
use std::thread;

fn render_all(re: &Regex, input: &str, repl: &str) -> Vec<String> {
    let mut out = Vec::new();
    out.push(format!("is_match={}", re.is_match(input)));
    out.push(format!("replace_all={:?}", re.replace_all(input, repl)));
    match re.tokenize(input) {
        Ok(it) => out.push(format!("tokenize={:?}", it.collect::<Vec<_>>())),
        Err(e) => out.push(format!("tokenize=Err({:?})", e)),
    }
    match re.analyze(input) {
        Ok(it) => out.push(format!("analyze={:?}", it.collect::<Vec<_>>())),
        Err(e) => out.push(format!("analyze=Err({:?})", e)),
    }
    out
}

fn check(what: &str, got: &[String], exp: &[String]) {
    if got != exp {
        panic!("C18-MISMATCH {}: got {:?} expected {:?}", what, got, exp);
    }
}

/// S1: three threads share one Regex through all four APIs.
fn s1() {
    let re = Arc::new(Regex::xpath(r"(a|ab)(c|bcd)*(d*)", "").unwrap());
    let inputs = ["abcd", "xacdd-abbcd", "zzz"];
    let exp: Vec<Vec<String>> = inputs.iter().map(|i| render_all(&re, i, "[$1|$3]")).collect();
    let mut hs = Vec::new();
    for t in 0..3usize {
        let re = re.clone();
        let exp = exp.clone();
        hs.push(thread::spawn(move || {
            for k in 0..2usize {
                let i = (t + k) % 3;
                let got = render_all(&re, inputs[i], "[$1|$3]");
                check(&format!("S1 thread {} input {:?}", t, inputs[i]), &got, &exp[i]);
            }
        }));
    }
    for h in hs {
        h.join().unwrap();
    }
}

/// S2: concurrent *cold* first use of the process-wide block table from three threads
/// (every Miri seed is a fresh interpreter, so the table is always uninitialised).
fn s2() {
    let pats = [r"\p{IsGreek}+", r"[\p{IsCyrillic}\p{IsBasicLatin}]+", r"\P{IsGreekExtended}"];
    let input = "abγδ жx";
    let mut hs = Vec::new();
    for t in 0..3usize {
        hs.push(thread::spawn(move || {
            let re = Regex::xpath(pats[t], "").unwrap();
            let unknown = Regex::xpath(r"\p{IsNope}", "").is_err();
            (render_all(&re, input, "_"), unknown)
        }));
    }
    let got: Vec<(Vec<String>, bool)> = hs.into_iter().map(|h| h.join().unwrap()).collect();
    // reference: the same calls on this thread, after everybody has finished
    for t in 0..3usize {
        let re = Regex::xpath(pats[t], "").unwrap();
        let exp = render_all(&re, input, "_");
        check(&format!("S2 thread {}", t), &got[t].0, &exp);
        assert!(got[t].1, "C18-MISMATCH S2 unknown block accepted on thread {}", t);
    }
}

/// S3: compile on A, use on B, drop on C.
fn s3() {
    let exp = {
        let re = Regex::xpath(r"(?:ab|c)*d(x)?", "").unwrap();
        render_all(&re, "abcd-cdx", "<$1>")
    };
    let a = thread::spawn(|| Arc::new(Regex::xpath(r"(?:ab|c)*d(x)?", "").unwrap()));
    let re = a.join().unwrap();
    let re_b = re.clone();
    let b = thread::spawn(move || render_all(&re_b, "abcd-cdx", "<$1>"));
    let re_c = re.clone();
    drop(re);
    let c = thread::spawn(move || {
        let r = render_all(&re_c, "abcd-cdx", "<$1>");
        drop(re_c);
        r
    });
    check("S3 use on B", &b.join().unwrap(), &exp);
    check("S3 use and drop on C", &c.join().unwrap(), &exp);
}

/// S4: interleaved, partially consumed iterators on a shared object across threads.
fn s4() {
    let re = Arc::new(Regex::xpath(r"(a+)(,|;)", "").unwrap());
    let input = "aa,a;b,aaa;";
    let exp_tok: Vec<String> = re.tokenize(input).unwrap().collect();
    let exp_ana: Vec<String> = re.analyze(input).unwrap().map(|e| format!("{:?}", e)).collect();
    let mut hs = Vec::new();
    for t in 0..2usize {
        let re = re.clone();
        let (exp_tok, exp_ana) = (exp_tok.clone(), exp_ana.clone());
        hs.push(thread::spawn(move || {
            let mut tok = re.tokenize(input).unwrap();
            let mut ana = re.analyze(input).unwrap();
            let mut got_tok = Vec::new();
            let mut got_ana = Vec::new();
            // interleave the two iterators and a plain call
            loop {
                let a = tok.next();
                let b = ana.next().map(|e| format!("{:?}", e));
                let _ = re.is_match("a,");
                if a.is_none() && b.is_none() {
                    break;
                }
                got_tok.extend(a);
                got_ana.extend(b);
            }
            check(&format!("S4 tokenize thread {}", t), &got_tok, &exp_tok);
            check(&format!("S4 analyze thread {}", t), &got_ana, &exp_ana);
        }));
    }
    for h in hs {
        h.join().unwrap();
    }
}

/// S5: concurrent *first* calls on a freshly compiled shared object (lazily computed
/// per-object state), for a pattern that matches the empty string and one that does not.
/// The expectation comes from a separate fresh object used by the main thread alone.
fn s5() {
    for pat in [r"(k7x)?z*", r"(k7x)+z"] {
        let exp = {
            let fresh = Regex::xpath(pat, "").unwrap();
            render_all(&fresh, "k7xzz k9x", "-")
        };
        let shared = Arc::new(Regex::xpath(pat, "").unwrap());
        let mut hs = Vec::new();
        for _ in 0..3usize {
            let re = shared.clone();
            hs.push(thread::spawn(move || render_all(&re, "k7xzz k9x", "-")));
        }
        for (t, h) in hs.into_iter().enumerate() {
            check(&format!("S5 {:?} thread {}", pat, t), &h.join().unwrap(), &exp);
        }
    }
}

/// S6: back-references, captures and case-blind comparison on one shared object from
/// three threads with different haystacks (per-search scratch must stay per search).
fn s6() {
    let re = Arc::new(Regex::xpath(r"^(ab+)c*\1$|(x)y\2", "i").unwrap());
    let inputs = ["abbcABB", "abbcab", "zXyx-abab"];
    let exp: Vec<Vec<String>> = inputs.iter().map(|i| render_all(&re, i, "<$1$2>")).collect();
    let mut hs = Vec::new();
    for t in 0..3usize {
        let re = re.clone();
        let exp = exp.clone();
        hs.push(thread::spawn(move || {
            for k in 0..2usize {
                let i = (t + k) % 3;
                let got = render_all(&re, inputs[i], "<$1$2>");
                check(&format!("S6 thread {} input {:?}", t, inputs[i]), &got, &exp[i]);
            }
        }));
    }
    for h in hs {
        h.join().unwrap();
    }
}

/// S7: a large character class (ten explicit ranges) on one shared object: threads look up
/// *different* member characters for the first time concurrently, then every character is
/// re-tested (lazily filled per-object lookup tables must not lose entries). Windows
/// inside such helpers contain no instrumentation point, so only this engine can reach them.
const PAT7: &str = r"^[a-cf-hk-mp-rt-vx-z0-24-68-9A-C]$";

fn s7() {
    let chars = ["a", "g", "l", "q", "0", "5", "y", "-"];
    let exp: Vec<bool> = {
        let fresh = Regex::xpath(PAT7, "").unwrap();
        chars.iter().map(|c| fresh.is_match(c)).collect()
    };
    let shared = Arc::new(Regex::xpath(PAT7, "").unwrap());
    let mut hs = Vec::new();
    for t in 0..4usize {
        let re = shared.clone();
        hs.push(thread::spawn(move || {
            (re.is_match(chars[2 * t]), re.is_match(chars[2 * t + 1]))
        }));
    }
    let mut got = Vec::new();
    for h in hs {
        let (a, b) = h.join().unwrap();
        got.push(a);
        got.push(b);
    }
    let again: Vec<bool> = chars.iter().map(|c| shared.is_match(c)).collect();
    let f = |v: &[bool]| v.iter().map(|b| b.to_string()).collect::<Vec<_>>();
    check("S7 concurrent first lookups", &f(&got), &f(&exp));
    check("S7 re-test on the used object", &f(&again), &f(&exp));
}

/// S8: concurrent compilation of patterns with *different general-category escapes* (the
/// one place the other scenarios avoid, because building a category set is slow under
/// Miri): each thread compiles two patterns and classifies a few characters; expectations
/// come from the main thread compiling the same patterns alone afterwards. Few seeds.
fn s8() {
    const PATS: [&str; 4] = [r"^\p{Lu}$", r"^\p{Ll}$", r"^\p{Nd}$", r"^\p{Sm}$"];
    const PROBES: [&str; 4] = ["A", "a", "7", "+"];
    let classify = |re: &Regex| -> Vec<String> {
        PROBES.iter().map(|p| format!("{}", re.is_match(p))).collect()
    };
    let mut hs = Vec::new();
    for t in 0..3usize {
        hs.push(thread::spawn(move || {
            let mut out = Vec::new();
            for k in 0..2usize {
                let i = (t + 2 * k) % 4;
                let re = Regex::xpath(PATS[i], "").unwrap();
                out.push((i, PROBES.iter().map(|p| format!("{}", re.is_match(p))).collect::<Vec<_>>()));
            }
            out
        }));
    }
    let got: Vec<Vec<(usize, Vec<String>)>> = hs.into_iter().map(|h| h.join().unwrap()).collect();
    for (t, per_thread) in got.iter().enumerate() {
        for (i, g) in per_thread {
            let exp = classify(&Regex::xpath(PATS[*i], "").unwrap());
            check(&format!("S8 thread {} pattern {}", t, PATS[*i]), g, &exp);
        }
    }
}

// ---------------------------------------------------------------------------------------
// Generated scenarios: `G <k>` derives a tiny multi-threaded script from the integer k
// (pattern, flags, inputs, 2-3 threads, 2-3 operations each, optionally an in-thread
// compilation of the same pattern). Miri's seed then picks the schedule. Expectations are
// computed beforehand by the main thread on a separate fresh object.

fn sm(state: &mut u64) -> u64 {
    *state = state.wrapping_add(0x9E37_79B9_7F4A_7C15);
    let mut z = *state;
    z = (z ^ (z >> 30)).wrapping_mul(0xBF58_476D_1CE4_E5B9);
    z = (z ^ (z >> 27)).wrapping_mul(0x94D0_49BB_1331_11EB);
    z ^ (z >> 31)
}

/// (pattern, flags, inputs): cheap to compile under Miri (no general-category sets).
const GEN: &[(&str, &str, &[&str])] = &[
    (r"(?:ab|c)*d", "", &["abcd", "ccabd-d", "xd"]),
    (r"(a|ab)(c|bcd)*(d*)", "", &["abcd", "acdd-ab"]),
    (r"(a+)b\1", "", &["aabaa", "aba-aabaa"]),
    (r"^([a-z]+) \1$", "m", &["hey hey\nyo yo", "a b"]),
    (r"[a-cf-hk-mp-rt-vx-z0-24-68-9A-C]+", "", &["abc-xyz", "0123456789", "DEF"]),
    (r"[a-z]+", "i", &["Hello World", "ABC"]),
    (r"(k7x)?z*", "", &["k7xzz k9x", "zz"]),
    (r"\p{IsGreek}+|\p{IsCyrillic}+", "", &["abγδ жx", "αβ"]),
    (r"(?:x|(a))(b)c", "", &["abd xbc", "abc"]),
    (r"a.c", "s", &["a\nc abc", "ac"]),
    (r"(x)?(y)?z", "", &["xyz yz z", "xz"]),
    (r"a b c", "x", &["abc", "a b c"]),
    (r"a.b", "q", &["a.b axb", "a.b.a.b"]),
    (r"[ ,]+", "", &["a b, c", "   "]),
    (r"^a", "m", &["a\na\nb", "b\na"]),
    (r"([0-9]+)-([0-9]+)", "", &["10-20 3-4", "a-b"]),
];

#[derive(Clone)]
enum GOp {
    All(usize),
    Interleave(usize),
    CompileOwn(usize),
}

fn run_gop(shared: &Regex, pat: &str, flags: &str, inputs: &[&str], op: &GOp) -> Vec<String> {
    match op {
        GOp::All(i) => render_all(shared, inputs[*i], "<$1>"),
        GOp::CompileOwn(i) => {
            let own = Regex::xpath(pat, flags).unwrap();
            render_all(&own, inputs[*i], "<$1>")
        }
        GOp::Interleave(i) => {
            // two partially consumed iterators and a plain call in between
            let mut out = Vec::new();
            let t = shared.tokenize(inputs[*i]);
            let a = shared.analyze(inputs[*i]);
            match (t, a) {
                (Ok(mut t), Ok(mut a)) => loop {
                    let x = t.next();
                    let y = a.next().map(|e| format!("{:?}", e));
                    out.push(format!("m={}", shared.is_match(inputs[*i])));
                    if x.is_none() && y.is_none() {
                        break;
                    }
                    out.push(format!("{:?}/{:?}", x, y));
                },
                (t, a) => out.push(format!("{:?}/{:?}", t.err(), a.err())),
            }
            out
        }
    }
}

fn generated(k: u64) {
    let mut st = k.wrapping_mul(0x2545_F491_4F6C_DD1D) ^ 0xC18;
    let (pat, flags, inputs) = GEN[(sm(&mut st) % GEN.len() as u64) as usize];
    let nthreads = 2 + (sm(&mut st) % 2) as usize;
    let mut scripts: Vec<Vec<GOp>> = Vec::new();
    for _ in 0..nthreads {
        let n = 1 + (sm(&mut st) % 2) as usize;
        let mut ops = Vec::new();
        for _ in 0..n {
            let i = (sm(&mut st) % inputs.len() as u64) as usize;
            ops.push(match sm(&mut st) % 5 {
                0 | 1 => GOp::All(i),
                2 | 3 => GOp::Interleave(i),
                _ => GOp::CompileOwn(i),
            });
        }
        scripts.push(ops);
    }
    // expectations: same operations on a separate fresh object, nobody else running
    let exp: Vec<Vec<Vec<String>>> = {
        let fresh = Regex::xpath(pat, flags).unwrap();
        scripts
            .iter()
            .map(|ops| ops.iter().map(|o| run_gop(&fresh, pat, flags, inputs, o)).collect())
            .collect()
    };
    let shared = Arc::new(Regex::xpath(pat, flags).unwrap());
    let mut hs = Vec::new();
    for ops in scripts.clone() {
        let re = shared.clone();
        hs.push(thread::spawn(move || {
            ops.iter()
                .map(|o| run_gop(&re, pat, flags, inputs, o))
                .collect::<Vec<_>>()
        }));
    }
    for (t, h) in hs.into_iter().enumerate() {
        let got = h.join().unwrap();
        for (j, g) in got.iter().enumerate() {
            check(&format!("G{} {:?} thread {} op {}", k, pat, t, j), g, &exp[t][j]);
        }
    }
    // the used object must still answer like a fresh one
    let again = render_all(&shared, inputs[0], "<$1>");
    let fresh = Regex::xpath(pat, flags).unwrap();
    check(&format!("G{} {:?} afterwards", k, pat), &again, &render_all(&fresh, inputs[0], "<$1>"));
}

fn main() {
    let which = std::env::args().nth(1).unwrap_or_else(|| "S1".to_string());
    match which.as_str() {
        "S1" => s1(),
        "S2" => s2(),
        "S3" => s3(),
        "S4" => s4(),
        "S5" => s5(),
        "S6" => s6(),
        "S7" => s7(),
        "S8" => s8(),
        "G" => generated(
            std::env::args()
                .nth(2)
                .and_then(|s| s.parse().ok())
                .unwrap_or(0),
        ),
        // self-test of the stage's failure reporting
        "FAIL" => check("FAIL selftest", &["a".to_string()], &["b".to_string()]),
        other => {
            eprintln!("unknown scenario {}", other);
            std::process::exit(2);
        }
    }
    println!(
        "scenario {}{} ok",
        which,
        std::env::args().nth(2).unwrap_or_default()
    );
}
