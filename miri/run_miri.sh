#!/usr/bin/env python3
"""Miri stage of the C18 check (second engine, DESIGN §3.8).

  run_miri.sh --seeds N            run scenarios S1..S4 under N seeded schedules each
  run_miri.sh --replay FILE        re-run one (scenario, seed)

Interprets the *shipped* configuration of /repo/regexml (no hooks) on real std threads under
Miri's seeded preemptive scheduler; data races, deadlocks, UB and result mismatches are
violations. A failure of the tooling itself (build error, unsupported operation, time-out)
is recorded as "stage not run"/"infrastructure" and never turned into a violation.
Writes /verif/target/miri-summary.json (read by the simulator's evidence writer)."""
import json, os, re, subprocess, sys, time

SCEN_DIR = "/verif/miri/scen"
SUMMARY = "/verif/target/miri-summary.json"
SCENARIOS = {
    "S1": "three threads share one Regex through all four APIs",
    "S2": "concurrent cold first use of the process-wide block table from three threads",
    "S3": "compile on thread A, use on B, use and drop on C",
    "S4": "interleaved, partially consumed iterators on a shared object across two threads",
    "S5": "concurrent first calls on a freshly compiled shared object (empty-matching and ordinary pattern)",
    "S6": "back-references, captures and case-blind matching on one shared object from three threads",
    "S7": "large character class on one shared object: concurrent first lookups of different members, then re-test (windows without instrumentation points)",
}
# Miri preemption rates per scenario (cheap scenarios are run at several rates: which rate
# exposes a narrow window varies)
RATES = {"S1": [0.1], "S2": [0.1], "S3": [0.1], "S4": [0.05, 0.5], "S5": [0.05, 0.5], "S6": [0.1],
         "S7": [0.05, 0.25, 0.5]}
# aliasing-model complaints and other UB reports that are not data races are recorded as
# "other reports", never as C18 violations
VIOLATION_MARKS = ["C18-MISMATCH", "Data race detected", "deadlock"]
INFRA_MARKS = ["Undefined Behavior", "unsupported operation", "could not compile", "error: no such command", "is not installed"]


def run(scenario, lo, hi, timeout, rate=0.1):
    env = dict(os.environ)
    env["CARGO_NET_OFFLINE"] = "true"
    # tree borrows: icu_casemap/zerovec (a dependency) trips the experimental Stacked Borrows rules
    # single-threadedly as soon as the i flag meets a bracket expression; that is not C18's business
    env["MIRIFLAGS"] = f"-Zmiri-many-seeds={lo}..{hi} -Zmiri-preemption-rate={rate} -Zmiri-tree-borrows"
    env.pop("RUSTFLAGS", None)
    t0 = time.time()
    try:
        p = subprocess.run(["cargo", "+nightly", "miri", "run", "--offline", "--"] + scenario.split(":"),
                           cwd=SCEN_DIR, env=env, stdout=subprocess.PIPE, stderr=subprocess.STDOUT,
                           timeout=timeout, text=True, errors="replace")
        out, rc, timed_out = p.stdout, p.returncode, False
    except subprocess.TimeoutExpired as e:
        out = (e.stdout or b"")
        out = out.decode(errors="replace") if isinstance(out, bytes) else out
        rc, timed_out = -1, True
    return out, rc, timed_out, time.time() - t0


def classify(out):
    for m in VIOLATION_MARKS:
        if m in out:
            return "violation", m
    for m in INFRA_MARKS:
        if m in out:
            return "infrastructure", m
    return "unknown", ""


def stage(nseeds):
    base = int(os.environ.get("VERIF_SEED", "20261002")) % 100000
    summary = {"stage": "run", "engine": "cargo +nightly miri run, -Zmiri-many-seeds, -Zmiri-preemption-rate per scenario",
               "configuration": "shipped (feature verif-hooks off)", "seed_range": [base, base + nseeds],
               "scenarios": {}, "violations": [], "infrastructure_failures": []}
    os.makedirs("/verif/target", exist_ok=True)
    os.makedirs("/verif/replays", exist_ok=True)
    scen = dict(SCENARIOS)
    if os.environ.get("VERIF_MIRI_SLOW") == "1":
        # about 15 minutes for up to 16 seeds: general-category sets are built under Miri
        scen["S8"] = "concurrent compilation of patterns with different general-category escapes (slow; opt-in)"
    ngen = int(os.environ.get("VERIF_MIRI_GENERATED", "24"))
    for k in range(ngen):
        scen[f"G:{base % 1000 + k}"] = "generated mini-script (pattern, 2-3 threads, 1-2 operations each, derived from the integer)"
    # build once, then run several (scenario, rate) jobs side by side: many-seeds uses one core
    # per seed, and the generated scenarios have few seeds each
    subprocess.run(["cargo", "+nightly", "miri", "build", "--offline"], cwd=SCEN_DIR,
                   env={**os.environ, "CARGO_NET_OFFLINE": "true"}, stdout=subprocess.DEVNULL, stderr=subprocess.DEVNULL)
    jobs = []
    for sc, desc in scen.items():
        gen = sc.startswith("G:")
        rates = [0.05 if int(sc[2:]) % 2 else 0.4] if gen else RATES.get(sc, [0.1])
        nseeds_sc = max(4, nseeds // 6) if gen else nseeds
        summary["scenarios"][sc] = {"what": desc, "seeds": 0, "ok": 0, "failing_seeds": [], "wall_s": 0.0,
                                    "preemption_rates": rates}
        for rate in rates:
            jobs.append((sc, rate, nseeds_sc))
    from concurrent.futures import ThreadPoolExecutor
    def work(job):
        sc, rate, n = job
        return job, run(sc, base, base + n, timeout=2400, rate=rate)
    with ThreadPoolExecutor(max_workers=int(os.environ.get("VERIF_MIRI_PARALLEL", "3"))) as ex:
        results = list(ex.map(work, jobs))
    for (sc, rate, nseeds_sc), (out, rc, timed_out, wall) in results:
        entry = summary["scenarios"][sc]
        ok = len(re.findall(rf"scenario {sc.replace(':', '')} ok", out))
        failing = [int(x) for x in re.findall(r"FAILING SEED: (\d+)", out)]
        entry["seeds"] += nseeds_sc
        entry["ok"] += ok
        entry["failing_seeds"] += failing
        entry["wall_s"] = round(entry["wall_s"] + wall, 1)
        if timed_out:
            entry["note"] = "timed out"
            summary["infrastructure_failures"].append(f"{sc}: timed out after {wall:.0f}s ({ok} seeds finished)")
        elif failing or (rc != 0 and ok < nseeds_sc):
            kind, mark = classify(out)
            if kind == "violation" and failing:
                for seed in failing[:3]:
                    path = f"/verif/replays/C18-miri-{sc.replace(':', '')}-{seed}.json"
                    tail = "\n".join(l for l in out.splitlines() if not l.startswith("warning"))[-3000:]
                    json.dump({"property": "C18", "engine": "miri", "scenario": sc, "seed": seed, "rate": rate,
                               "kind": mark, "output_tail": tail}, open(path, "w"), indent=1)
                    summary["violations"].append({"scenario": sc, "seed": seed, "rate": rate, "kind": mark, "replay": path})
            else:
                tail = out[-1500:]
                summary["infrastructure_failures"].append(f"{sc}: rc={rc} kind={kind} {mark}: {tail}")
                entry["note"] = "infrastructure failure; not counted"
    if summary["infrastructure_failures"] and not any(e.get("ok") for e in summary["scenarios"].values()):
        summary["stage"] = "not run (tool failure)"
    json.dump(summary, open(SUMMARY, "w"), indent=1)
    print("miri stage:", json.dumps({k: (v["ok"], v["failing_seeds"]) for k, v in summary["scenarios"].items()}),
          "violations:", len(summary["violations"]))
    return 0


def replay(path):
    r = json.load(open(path))
    sc, seed = r["scenario"], int(r["seed"])
    out, rc, timed_out, wall = run(sc, seed, seed + 1, timeout=2400, rate=r.get("rate", 0.1))
    print("\n".join(l for l in out.splitlines() if not l.startswith("warning"))[-4000:])
    kind, mark = classify(out)
    if "FAILING SEED" in out and kind == "violation":
        print(f"VIOLATION property=C18 replay={path}")
        return 1
    if timed_out or kind == "infrastructure":
        print("replay: Miri could not run this scenario here (tool failure)")
        return 2
    print("replay: no violation observed on the current tree")
    return 0


if __name__ == "__main__":
    a = sys.argv[1:]
    if len(a) == 2 and a[0] == "--seeds":
        sys.exit(stage(int(a[1])))
    if len(a) == 2 and a[0] == "--replay":
        sys.exit(replay(a[1]))
    print(__doc__)
    sys.exit(2)
