#!/bin/bash
# placeholder until the Miri scenarios are built: records that the stage did not run
mkdir -p /verif/target
echo '{"stage":"not built yet"}' > /verif/target/miri-summary.json
exit 0
