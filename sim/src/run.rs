//! One simulated execution: spawn the caller threads, interpret their scripts against the
//! real library under the token scheduler, compare every outcome with the reference the
//! moment it returns, and produce the run record.

use crate::exec::{self, Abnormal, StrIter};
use crate::hashkeys;
use crate::hook::{self, CLOCK, NSITES};
use crate::model::*;
use crate::refsrv::RefClient;
use crate::sched::{self, SimThread};
use regexml::Regex;
use std::collections::HashMap;
use std::sync::atomic::Ordering;
use std::sync::{Arc, Mutex};

/// Lets the harness share objects between threads even if a change makes `Regex` lose
/// `Send`/`Sync`; the static facet is decided separately (probe.rs).
pub struct ForceSync<T>(pub T);
unsafe impl<T> Send for ForceSync<T> {}
unsafe impl<T> Sync for ForceSync<T> {}

pub struct Obj {
    pub id: u32,
    pub key: Key,
    pub by: usize,
    pub re: ForceSync<Regex>,
}

pub const THREAD_STACK: usize = 16 << 20;

/// (tokenize iterator is Send, analyze iterator is Send) on the tree under test.
pub fn iter_send() -> (bool, bool) {
    static P: std::sync::OnceLock<(bool, bool)> = std::sync::OnceLock::new();
    // the probe compiles a trivial pattern: it is evaluated by the worker right after
    // start-up of its first run, never inside a simulated call
    *P.get_or_init(crate::probe::iter_send_probe)
}

/// Identity of one library call for the determinism self-check (who made it, as which
/// operation, with which request) and the work the library did for it (path signature and
/// step count).
fn work_entry(kind: &str, what: &str, poll: Option<usize>, op: usize, me: usize, sig: u64, steps: u64) -> (u64, u64) {
    let mut h = crate::rng::Fnv::default();
    h.bytes(kind.as_bytes());
    h.bytes(what.as_bytes());
    h.u64(poll.map_or(u64::MAX, |p| p as u64));
    h.u64(op as u64);
    h.u64(me as u64);
    (h.0, sig ^ steps.wrapping_mul(0x9E37_79B9_7F4A_7C15))
}

/// A call to be made from a thread-local destructor at thread exit (F10b).
struct ExitCall {
    sim: Arc<SimThread>,
    world: Arc<Mutex<World>>,
    obj: Arc<Obj>,
    req: Request,
    expected: Arc<RefResult>,
    op: usize,
}

struct ExitList(std::cell::RefCell<Vec<ExitCall>>);

impl Drop for ExitList {
    fn drop(&mut self) {
        let calls = std::mem::take(&mut *self.0.borrow_mut());
        for c in calls {
            let (r, steps) = exec::guarded(0, || match c.req.method {
                Method::IsMatch => exec::is_match(&c.obj.re.0, &c.req.input),
                _ => exec::replace_all(&c.obj.re.0, &c.req.input, &c.req.repl),
            });
            let we = work_entry("atexit", &c.req.show(), None, c.op, c.sim.idx, hook::last_sig(), steps);
            let got = match r {
                Ok(s) => s,
                Err(a) => a.render(),
            };
            let ok = got == c.expected.open || c.expected.unstable;
            let t = now();
            c.sim.with(|s| {
                s.logline(&format!(
                    "t={} T{} at-exit #{} obj{} {} -> {} ref={} {}",
                    t,
                    c.sim.idx,
                    c.op,
                    c.obj.id,
                    c.req.show(),
                    got,
                    c.expected.open,
                    if ok { "ok" } else { "MISMATCH" }
                ))
            });
            let mut w = wlock(&c.world);
            w.rec.compared += 1;
            w.workload.push(we);
            // std documents that `LocalKey::with` panics when the key is used during or after
            // its destruction; a library that keeps per-thread scratch behind `with` inherits
            // that limitation of thread-local storage. It is an effect of the calling thread's
            // teardown, not of history, other objects or other threads: recorded, not alarmed.
            let tls_teardown = got.contains("Thread Local Storage value during or after destruction");
            if !ok && tls_teardown {
                w.rec.inconclusive.push(format!(
                    "at-exit call {}: the library's thread-local storage was already destroyed ({})",
                    c.req.show(),
                    got
                ));
            } else if !ok {
                w.rec.violations.push(Violation {
                    class: "result-mismatch".into(),
                    thread: c.sim.idx,
                    op: c.op,
                    poll: 0,
                    t,
                    request: format!("{} (made from a thread-local destructor at thread exit)", c.req.show()),
                    expected: c.expected.open.clone(),
                    got,
                });
            }
        }
    }
}

thread_local! {
    static EXIT_CALLS: ExitList = const { ExitList(std::cell::RefCell::new(Vec::new())) };
}

struct IterSlot {
    // field order matters: the iterator borrows from `obj` and must drop first
    it: Option<StrIter<'static>>,
    obj: Arc<Obj>,
    req: Request,
    refres: Arc<RefResult>,
    polls: usize,
    seen_none: bool,
}

/// A live iterator on its way to another thread. Only ever constructed when the probe says
/// the iterator type is `Send` on the tree under test.
struct SendSlot(IterSlot);
unsafe impl Send for SendSlot {}

/// Harness-side state of a run; only ever touched by the token holder.
pub struct World {
    mailbox: Vec<Vec<SendSlot>>,
    pool: Vec<Option<Arc<Obj>>>,
    next_obj: u32,
    freed_addrs: Vec<usize>,
    live_iters: HashMap<u32, usize>,
    unstable_reported: Vec<String>,
    pub rec: RunRecord,
    probes: [u64; NSITES],
    callsigs: Vec<(u64, u64)>,
    /// (call identity incl. thread and operation index, path signature + step count) of
    /// every guarded call, compared or not.
    workload: Vec<(u64, u64)>,
}

/// Process-wide (per worker) memory of the path signature first seen for each request.
fn sig_memory() -> &'static Mutex<HashMap<u64, u64>> {
    static M: std::sync::OnceLock<Mutex<HashMap<u64, u64>>> = std::sync::OnceLock::new();
    M.get_or_init(|| Mutex::new(HashMap::new()))
}

fn now() -> u64 {
    CLOCK.load(Ordering::Relaxed)
}

struct Ctx {
    /// the caller's reusable haystack buffer (see RunSpec::reuse_input_buffer)
    buf: String,
    fresh: bool,
    sim: Arc<SimThread>,
    spec: Arc<RunSpec>,
    world: Arc<Mutex<World>>,
    refc: Arc<Mutex<RefClient>>,
    iters: Vec<Option<IterSlot>>,
}

fn wlock(w: &Mutex<World>) -> std::sync::MutexGuard<'_, World> {
    w.lock().unwrap_or_else(|e| e.into_inner())
}

impl Ctx {
    fn me(&self) -> usize {
        self.sim.idx
    }

    fn log(&self, line: String) {
        self.sim.with(|s| s.logline(&line));
    }

    fn crash_at(&self, op: usize, poll: usize) -> u64 {
        // the clock-jump plan is armed through the same door: every guarded call asks for
        // its crash point first
        match self
            .spec
            .jumps
            .iter()
            .find(|j| j.thread == self.me() && j.op == op && j.poll == poll)
        {
            Some(j) => hook::arm_jump(j.step, j.ms),
            None => hook::arm_jump(0, 0),
        }
        self.spec
            .crashes
            .iter()
            .find(|c| c.thread == self.me() && c.op == op && c.poll == poll)
            .map(|c| c.step)
            .unwrap_or(0)
    }

    fn reference(&self, req: &Request) -> Arc<RefResult> {
        self.sim.set_io(true);
        let r = {
            let mut c = self.refc.lock().unwrap_or_else(|e| e.into_inner());
            c.get(req)
        };
        self.sim.set_io(false);
        r
    }

    fn begin_call(&self, obj: Option<&Arc<Obj>>) {
        let me = self.me();
        let overlap = self.sim.with(|s| {
            s.in_op[me] = true;
            s.active_obj[me] = obj.map(|o| o.id);
            match obj {
                Some(o) => (0..s.n).any(|t| t != me && s.active_obj[t] == Some(o.id)),
                None => false,
            }
        });
        let mut w = wlock(&self.world);
        if overlap {
            w.rec.same_obj_overlap += 1;
        }
        if let Some(o) = obj {
            if o.by != me {
                w.rec.migrations += 1;
            }
        }
    }

    fn end_call(&self) {
        let me = self.me();
        self.sim.with(|s| {
            s.in_op[me] = false;
            s.active_obj[me] = None;
        });
    }

    /// Compare an outcome with the reference and log the return event.
    #[allow(clippy::too_many_arguments)]
    fn check(
        &self,
        op: usize,
        poll: Option<usize>,
        req: &Request,
        got: &Result<String, Abnormal>,
        got_steps: u64,
        refres: &RefResult,
        exp: Option<&str>,
        exp_steps: u64,
    ) {
        let t = now();
        let me = self.me();
        let tag = match poll {
            Some(p) => format!("#{}.{}", op, p),
            None => format!("#{}", op),
        };
        let mut w = wlock(&self.world);
        {
            // what the library did during this call, whatever its outcome: path signature
            // and step count. Used by the determinism self-check to tell a library that does
            // a varying amount of work from a harness that lost determinism.
            w.workload.push(work_entry("call", &req.show(), poll, op, me, hook::last_sig(), got_steps));
        }
        if let Err(Abnormal::Crashed) = got {
            w.rec.crashes_fired += 1;
            w.rec.crash_excluded += 1;
            drop(w);
            self.log(format!(
                "t={} T{} return {} Crashed(injected) not compared",
                t, me, tag
            ));
            return;
        }
        let got_s = match got {
            Ok(s) => s.clone(),
            Err(a) => a.render(),
        };
        match got {
            Err(Abnormal::Panicked(_)) => w.rec.panicked += 1,
            Err(Abnormal::Diverged) => w.rec.diverged += 1,
            Ok(s) if s.starts_with("Err(") => w.rec.errors += 1,
            _ => {}
        }
        w.rec.compared += 1;
        if req.input.len() >= 4096 {
            w.rec.large_input_outcomes += 1;
        }
        if got.is_ok() {
            // path purity: the same request must take the same path through the library
            let sig = hook::last_sig();
            let mut h = crate::rng::Fnv::default();
            h.bytes(req.show().as_bytes());
            h.u64(poll.map_or(u64::MAX, |p| p as u64));
            w.callsigs.push((h.0, sig));
            let mut mem = sig_memory().lock().unwrap_or_else(|e| e.into_inner());
            match mem.get(&h.0) {
                Some(&old) if old != sig => {
                    w.rec.path_impure += 1;
                    if w.rec.path_impure_examples.len() < 3 {
                        w.rec.path_impure_examples.push(match poll {
                            Some(p) => format!("{} poll {}", req.show(), p),
                            None => req.show(),
                        });
                    }
                }
                Some(_) => {}
                None => {
                    mem.insert(h.0, sig);
                }
            }
        }
        let exp_s = exp.unwrap_or("<iterator gone in reference>");
        let verdict;
        if refres.unstable {
            let r = req.show();
            if !w.unstable_reported.contains(&r) {
                w.unstable_reported.push(r.clone());
                w.rec.violations.push(Violation {
                    class: "hash-key-dependence".into(),
                    thread: me,
                    op,
                    poll: poll.unwrap_or(0),
                    t,
                    request: r,
                    expected: "same answer under two hash-key streams in pristine processes"
                        .into(),
                    got: refres.open.clone(),
                });
            }
            verdict = "REF-UNSTABLE";
        } else if got_s == exp_s {
            verdict = "ok";
        } else {
            let near = STEP_BUDGET / 4;
            let boundary = (got_s == "Diverged" && exp_steps >= near)
                || (exp_s == "Diverged" && got_steps >= near)
                || (refres.budget_sensitive && (got_s == "Diverged" || exp_s == "Diverged"));
            if boundary {
                w.rec.inconclusive.push(format!(
                    "budget-boundary: {} got={} ({} steps) ref={} ({} steps)",
                    req.show(),
                    got_s,
                    got_steps,
                    exp_s,
                    exp_steps
                ));
                verdict = "INCONCLUSIVE(budget)";
            } else {
                w.rec.violations.push(Violation {
                    class: "result-mismatch".into(),
                    thread: me,
                    op,
                    poll: poll.unwrap_or(0),
                    t,
                    request: match poll {
                        Some(p) => format!("{} poll {}", req.show(), p),
                        None => req.show(),
                    },
                    expected: exp_s.to_string(),
                    got: got_s.clone(),
                });
                verdict = "MISMATCH";
            }
        }
        drop(w);
        if std::env::var_os("SIM_EDGE_DEBUG").is_some() {
            self.log(format!(
                "t={} T{} return {} {} ref={} {} steps={} edges={}",
                t, me, tag, got_s, exp_s, verdict, got_steps, hook::call_edges()
            ));
            return;
        }
        self.log(format!(
            "t={} T{} return {} {} ref={} {} steps={}",
            t, me, tag, got_s, exp_s, verdict, got_steps
        ));
    }

    /// The reference evaluation of this request did not complete within the step budget
    /// (the pinned library has known non-terminating inputs), or completes only under some
    /// hash keys. Such a call is not made at all: cutting it off on the simulated side would
    /// unwind the calling thread only, while work the library may have handed to threads of
    /// its own (scoped workers, a pool) would go on unbounded and the call would never
    /// return — a hang produced by the harness, not by the library.
    fn skip_incomplete(&self, op: usize, refres: &RefResult) -> bool {
        let incomplete = refres.budget_sensitive
            || refres.open == "Diverged"
            || refres.open.starts_with("NoObject(Diverged");
        if incomplete {
            wlock(&self.world).rec.skipped_incomplete_reference += 1;
            self.log(format!(
                "t={} T{} skip #{} the reference does not complete within the step budget",
                now(),
                self.me(),
                op
            ));
        }
        incomplete
    }

    fn skip(&self, op: usize, why: &str) {
        wlock(&self.world).rec.skipped_no_object += 1;
        self.log(format!("t={} T{} skip #{} {}", now(), self.me(), op, why));
    }

    fn get_obj(&self, slot: usize) -> Option<Arc<Obj>> {
        wlock(&self.world).pool.get(slot).and_then(|o| o.clone())
    }

    /// Remove the object from a slot; remembers its address if we are its last owner.
    fn take_obj(&self, slot: usize) -> Option<Arc<Obj>> {
        let mut w = wlock(&self.world);
        let o = w.pool.get_mut(slot).and_then(|o| o.take());
        if let Some(o) = &o {
            if Arc::strong_count(o) == 1 {
                let a = Arc::as_ptr(o) as usize;
                w.freed_addrs.push(a);
            }
        }
        o
    }

    fn do_compile(&mut self, op: usize, slot: usize, key: &Key) {
        let me = self.me();
        let req = Request {
            key: key.clone(),
            method: Method::Compile,
            input: String::new(),
            repl: String::new(),
        };
        let refres = self.reference(&req);
        if self.skip_incomplete(op, &refres) {
            return;
        }
        self.log(format!(
            "t={} T{} invoke #{} compile slot={} {}",
            now(),
            me,
            op,
            slot,
            key.show()
        ));
        self.begin_call(None);
        let (r, steps) = exec::guarded(self.crash_at(op, 0), || exec::compile(key));
        self.end_call();
        let got = r.as_ref().map(exec::render_compile).map_err(|a| a.clone());
        self.check(
            op,
            None,
            &req,
            &got,
            steps,
            &refres,
            Some(&refres.open),
            refres.steps,
        );
        if let Ok(Ok(re)) = r {
            let old;
            {
                let mut w = wlock(&self.world);
                let id = w.next_obj;
                w.next_obj += 1;
                let obj = Arc::new(Obj {
                    id,
                    key: key.clone(),
                    by: me,
                    re: ForceSync(re),
                });
                let a = Arc::as_ptr(&obj) as usize;
                if w.freed_addrs.contains(&a) {
                    w.rec.addr_reuse += 1;
                }
                if slot < w.pool.len() {
                    old = w.pool[slot].replace(obj);
                } else {
                    old = None;
                }
            }
            drop(old);
        }
    }

    fn do_simple(&mut self, op: usize, slot: usize, method: Method, input: &str, repl: &str) {
        let me = self.me();
        let obj = match self.get_obj(slot) {
            Some(o) => o,
            None => return self.skip(op, "no object in slot"),
        };
        let req = Request {
            key: obj.key.clone(),
            method,
            input: input.to_string(),
            repl: repl.to_string(),
        };
        let refres = self.reference(&req);
        if self.skip_incomplete(op, &refres) {
            return;
        }
        self.log(format!(
            "t={} T{} invoke #{} obj{} {}",
            now(),
            me,
            op,
            obj.id,
            req.show()
        ));
        self.begin_call(Some(&obj));
        // the haystack reaches the library either as its own string or through the
        // caller's reused buffer (same address for different contents)
        let mut buf = std::mem::take(&mut self.buf);
        let hay: &str = if self.spec.reuse_input_buffer {
            buf.clear();
            buf.push_str(input);
            &buf
        } else {
            input
        };
        let (r, steps) = exec::guarded(self.crash_at(op, 0), || match method {
            Method::IsMatch => exec::is_match(&obj.re.0, hay),
            Method::ReplaceAll => exec::replace_all(&obj.re.0, hay, repl),
            _ => unreachable!(),
        });
        self.end_call();
        self.buf = buf;
        self.check(
            op,
            None,
            &req,
            &r,
            steps,
            &refres,
            Some(&refres.open),
            refres.steps,
        );
    }

    /// `n` identical calls on one object, every one compared with the reference.
    fn do_soak(&mut self, op: usize, slot: usize, method: Method, input: &str, repl: &str, n: usize) {
        let me = self.me();
        let obj = match self.get_obj(slot) {
            Some(o) => o,
            None => return self.skip(op, "no object in slot"),
        };
        let req = Request {
            key: obj.key.clone(),
            method,
            input: input.to_string(),
            repl: repl.to_string(),
        };
        self.log(format!(
            "t={} T{} invoke #{} obj{} soak x{} {}",
            now(),
            me,
            op,
            obj.id,
            n,
            req.show()
        ));
        let refres = self.reference(&req);
        if self.skip_incomplete(op, &refres) {
            return;
        }
        self.begin_call(Some(&obj));
        let mut first_bad: Option<(usize, String)> = None;
        let mut first_sig: Option<u64> = None;
        let mut sig_changes = 0u64;
        let mut done = 0usize;
        let mut soak_work = crate::rng::Fnv::default();
        for k in 0..n {
            let (r, steps) = exec::guarded(0, || match method {
                Method::IsMatch => exec::is_match(&obj.re.0, input),
                Method::ReplaceAll => exec::replace_all(&obj.re.0, input, repl),
                _ => unreachable!("soak is for simple calls"),
            });
            done += 1;
            let got = match r {
                Ok(s) => s,
                Err(a) => a.render(),
            };
            let sig = hook::last_sig();
            soak_work.u64(sig);
            soak_work.u64(steps);
            match first_sig {
                None => first_sig = Some(sig),
                Some(f) if f != sig => sig_changes += 1,
                _ => {}
            }
            if got != refres.open && !refres.unstable {
                first_bad = Some((k, got));
                break;
            }
        }
        self.end_call();
        let t = now();
        let mut w = wlock(&self.world);
        w.rec.compared += done as u64;
        w.rec.soak_calls += done as u64;
        w.workload.push(work_entry("soak", &req.show(), None, op, me, soak_work.0, 0));
        if sig_changes > 0 {
            w.rec.path_impure += sig_changes;
            if w.rec.path_impure_examples.len() < 3 {
                w.rec
                    .path_impure_examples
                    .push(format!("{} (within a soak of {} identical calls)", req.show(), n));
            }
        }
        let verdict = match &first_bad {
            None => format!("all {} equal ref={} ok", done, refres.open),
            Some((k, got)) => {
                w.rec.violations.push(Violation {
                    class: "result-mismatch".into(),
                    thread: me,
                    op,
                    poll: 0,
                    t,
                    request: format!("{} (call {} of {} identical calls)", req.show(), k + 1, n),
                    expected: refres.open.clone(),
                    got: got.clone(),
                });
                format!("call {} returned {} ref={} MISMATCH", k + 1, got, refres.open)
            }
        };
        drop(w);
        self.log(format!("t={} T{} return #{} soak {}", t, me, op, verdict));
    }

    fn drop_iter(&mut self, it: usize, abandoned: bool) {
        if let Some(slot) = self.iters.get_mut(it).and_then(|s| s.take()) {
            let mut w = wlock(&self.world);
            if let Some(c) = w.live_iters.get_mut(&slot.obj.id) {
                *c = c.saturating_sub(1);
            }
            if abandoned && slot.it.is_some() && !slot.seen_none {
                w.rec.abandoned_iters += 1;
            }
            drop(w);
            drop(slot);
        }
    }

    fn do_open(&mut self, op: usize, slot: usize, method: Method, input: &str, it: usize) {
        let me = self.me();
        if it >= self.iters.len() {
            return;
        }
        self.drop_iter(it, true);
        let obj = match self.get_obj(slot) {
            Some(o) => o,
            None => return self.skip(op, "no object in slot"),
        };
        let req = Request {
            key: obj.key.clone(),
            method,
            input: input.to_string(),
            repl: String::new(),
        };
        let refres = self.reference(&req);
        if self.skip_incomplete(op, &refres) {
            return;
        }
        self.log(format!(
            "t={} T{} invoke #{} obj{} {} -> it{}",
            now(),
            me,
            op,
            obj.id,
            req.show(),
            it
        ));
        self.begin_call(Some(&obj));
        let mut buf = std::mem::take(&mut self.buf);
        let hay: &str = if self.spec.reuse_input_buffer {
            buf.clear();
            buf.push_str(input);
            &buf
        } else {
            input
        };
        let (r, steps) = exec::guarded(self.crash_at(op, 0), || {
            exec::open(&obj.re.0, method, hay).map(|i| {
                // SAFETY: the iterator borrows from `obj.re`, which lives in an Arc stored
                // next to it in the same IterSlot and is dropped after it.
                unsafe { std::mem::transmute::<StrIter<'_>, StrIter<'static>>(i) }
            })
        });
        self.end_call();
        self.buf = buf;
        let (got, iter) = match r {
            Ok(Ok(i)) => (Ok("Ok(iter)".to_string()), Some(i)),
            Ok(Err(e)) => (Ok(e), None),
            Err(a) => (Err(a), None),
        };
        self.check(
            op,
            None,
            &req,
            &got,
            steps,
            &refres,
            Some(&refres.open),
            refres.steps,
        );
        if let Some(i) = iter {
            {
                let mut w = wlock(&self.world);
                let c = w.live_iters.get(&obj.id).copied().unwrap_or(0);
                if c >= 1 {
                    w.rec.live_iter_overlap += 1;
                }
                w.live_iters.insert(obj.id, c + 1);
            }
            self.iters[it] = Some(IterSlot {
                it: Some(i),
                obj,
                req,
                refres,
                polls: 0,
                seen_none: false,
            });
        }
    }

    /// One poll of iterator `it`. Returns false when polling should stop.
    fn do_poll(&mut self, op: usize, k: usize, it: usize) -> Option<bool> {
        let me = self.me();
        let crash = self.crash_at(op, k);
        let (obj, req, refres, polls, seen_none) = {
            let s = self.iters.get(it)?.as_ref()?;
            s.it.as_ref()?;
            (
                s.obj.clone(),
                s.req.clone(),
                s.refres.clone(),
                s.polls,
                s.seen_none,
            )
        };
        if polls >= POLL_CAP {
            return None;
        }
        if refres.polls.get(polls).map(|s| s.as_str()) == Some("Diverged") {
            // this step of the iterator does not complete in the reference: not made
            wlock(&self.world).rec.skipped_incomplete_reference += 1;
            self.log(format!(
                "t={} T{} skip #{}.{} it{}: the reference does not complete this poll within the step budget",
                now(),
                me,
                op,
                k,
                it
            ));
            self.drop_iter(it, false);
            return None;
        }
        if seen_none {
            wlock(&self.world).rec.polls_after_end += 1;
        }
        self.log(format!(
            "t={} T{} invoke #{}.{} obj{} it{}.next() (poll {})",
            now(),
            me,
            op,
            k,
            obj.id,
            it,
            polls
        ));
        self.begin_call(Some(&obj));
        let (r, steps) = {
            let slot = self.iters[it].as_mut().unwrap();
            let iter = slot.it.as_mut().unwrap();
            exec::guarded(crash, || iter.next())
        };
        self.end_call();
        let got = r.as_ref().map(exec::render_poll).map_err(|a| a.clone());
        let exp = refres.polls.get(polls).map(|s| s.as_str());
        let exp_steps = refres.poll_steps.get(polls).copied().unwrap_or(0);
        self.check(op, Some(polls), &req, &got, steps, &refres, exp, exp_steps);
        let slot = self.iters[it].as_mut().unwrap();
        slot.polls += 1;
        match r {
            Ok(None) => {
                slot.seen_none = true;
                Some(false)
            }
            Ok(Some(_)) => Some(true),
            Err(_) => {
                // crashed / panicked / diverged inside next(): the iterator is dropped
                self.drop_iter(it, false);
                None
            }
        }
    }

    fn exec_op(&mut self, i: usize, op: &Op) {
        match op {
            Op::Compile {
                slot,
                key,
                drop_first,
            } => {
                if *drop_first {
                    let old = self.take_obj(*slot);
                    if let Some(o) = &old {
                        self.log(format!(
                            "t={} T{} drop obj{} (before compile into slot={})",
                            now(),
                            self.me(),
                            o.id,
                            slot
                        ));
                    }
                    drop(old);
                }
                self.do_compile(i, *slot, key)
            }
            Op::Recompile { slot } => {
                let old = self.take_obj(*slot);
                match old {
                    None => self.skip(i, "recompile: no object in slot"),
                    Some(o) => {
                        let key = o.key.clone();
                        wlock(&self.world).rec.recompiles += 1;
                        self.log(format!(
                            "t={} T{} drop obj{} (recompile slot={})",
                            now(),
                            self.me(),
                            o.id,
                            slot
                        ));
                        drop(o);
                        self.do_compile(i, *slot, &key);
                    }
                }
            }
            Op::DropRegex { slot } => {
                let old = self.take_obj(*slot);
                self.log(format!(
                    "t={} T{} #{} drop slot={} {}",
                    now(),
                    self.me(),
                    i,
                    slot,
                    old.as_ref()
                        .map_or("(empty)".to_string(), |o| format!("obj{}", o.id))
                ));
                drop(old);
            }
            Op::IsMatch { slot, input } => self.do_simple(i, *slot, Method::IsMatch, input, ""),
            Op::ReplaceAll { slot, input, repl } => {
                self.do_simple(i, *slot, Method::ReplaceAll, input, repl)
            }
            Op::Tokenize { slot, input, it } => {
                self.do_open(i, *slot, Method::Tokenize, input, *it)
            }
            Op::Analyze { slot, input, it } => self.do_open(i, *slot, Method::Analyze, input, *it),
            Op::Next { it, n } => {
                for k in 0..*n {
                    if k > 0 {
                        self.sim.boundary();
                    }
                    if self.do_poll(i, k, *it).is_none() {
                        break;
                    }
                }
            }
            Op::Drain { it } => {
                let mut k = 0;
                loop {
                    if k > 0 {
                        self.sim.boundary();
                    }
                    match self.do_poll(i, k, *it) {
                        Some(true) => {}
                        _ => break,
                    }
                    k += 1;
                    if k >= POLL_CAP {
                        break;
                    }
                }
            }
            Op::DropIter { it } => {
                self.log(format!("t={} T{} #{} drop it{}", now(), self.me(), i, it));
                self.drop_iter(*it, true);
            }
            Op::ForgetIter { it } => {
                self.log(format!("t={} T{} #{} forget it{}", now(), self.me(), i, it));
                if let Some(slot) = self.iters.get_mut(*it).and_then(|s| s.take()) {
                    let mut w = wlock(&self.world);
                    if let Some(c) = w.live_iters.get_mut(&slot.obj.id) {
                        *c = c.saturating_sub(1);
                    }
                    w.rec.abandoned_iters += 1;
                    w.rec.forgotten_iters += 1;
                    drop(w);
                    // leaks the iterator together with its Arc<Obj> (so nothing dangles)
                    std::mem::forget(slot);
                }
            }
            Op::Soak {
                slot,
                method,
                input,
                repl,
                n,
            } => self.do_soak(i, *slot, *method, input, repl, *n),
            Op::PanickingCall {
                slot,
                method,
                input,
                repl,
            } => {
                // the API call runs inside a destructor while this thread unwinds from a
                // harness-made panic (private payload, no panic hook); its own guarded
                // catch_unwind keeps budget / crash unwinds from escaping the destructor
                struct CallOnDrop<'a> {
                    ctx: &'a mut Ctx,
                    op: usize,
                    slot: usize,
                    method: Method,
                    input: &'a str,
                    repl: &'a str,
                    was_panicking: bool,
                }
                impl Drop for CallOnDrop<'_> {
                    fn drop(&mut self) {
                        self.was_panicking = std::thread::panicking();
                        self.ctx
                            .do_simple(self.op, self.slot, self.method, self.input, self.repl);
                    }
                }
                struct HarnessPanic;
                self.log(format!(
                    "t={} T{} #{} next call is made while this thread is unwinding",
                    now(),
                    self.me(),
                    i
                ));
                wlock(&self.world).rec.panicking_calls += 1;
                let r = std::panic::catch_unwind(std::panic::AssertUnwindSafe(|| {
                    let _g = CallOnDrop {
                        ctx: self,
                        op: i,
                        slot: *slot,
                        method: *method,
                        input,
                        repl,
                        was_panicking: false,
                    };
                    std::panic::resume_unwind(Box::new(HarnessPanic));
                }));
                debug_assert!(r.is_err());
            }
            Op::AtExitCall {
                slot,
                method,
                input,
                repl,
            } => {
                if !self.fresh {
                    // long-lived thread: it never exits during the run; make the call now
                    return self.do_simple(i, *slot, *method, input, repl);
                }
                let obj = match self.get_obj(*slot) {
                    Some(o) => o,
                    None => return self.skip(i, "no object in slot"),
                };
                let req = Request {
                    key: obj.key.clone(),
                    method: *method,
                    input: input.clone(),
                    repl: repl.clone(),
                };
                let expected = self.reference(&req);
                if self.skip_incomplete(i, &expected) {
                    return;
                }
                self.log(format!(
                    "t={} T{} #{} registers an at-exit call obj{} {}",
                    now(),
                    self.me(),
                    i,
                    obj.id,
                    req.show()
                ));
                wlock(&self.world).rec.at_exit_calls += 1;
                let call = ExitCall {
                    sim: self.sim.clone(),
                    world: self.world.clone(),
                    obj,
                    req,
                    expected,
                    op: i,
                };
                let _ = EXIT_CALLS.try_with(|l| l.0.borrow_mut().push(call));
            }
            Op::GiveIter { it, to } => {
                let method = self
                    .iters
                    .get(*it)
                    .and_then(|s| s.as_ref())
                    .map(|s| s.req.method);
                let sendable = match method {
                    Some(Method::Tokenize) => iter_send().0,
                    Some(Method::Analyze) => iter_send().1,
                    _ => false,
                };
                if !sendable || *to >= self.spec.threads() || *to == self.me() {
                    return self.log(format!(
                        "t={} T{} #{} give it{}: skipped (no live iterator, or its type is not Send)",
                        now(),
                        self.me(),
                        i,
                        it
                    ));
                }
                if let Some(slot) = self.iters.get_mut(*it).and_then(|s| s.take()) {
                    self.log(format!(
                        "t={} T{} #{} gives it{} (obj{}) to T{}",
                        now(),
                        self.me(),
                        i,
                        it,
                        slot.obj.id,
                        to
                    ));
                    let mut w = wlock(&self.world);
                    w.rec.iters_moved += 1;
                    w.mailbox[*to].push(SendSlot(slot));
                }
            }
            Op::TakeIter { it } => {
                let me = self.me();
                let got = wlock(&self.world).mailbox[me].pop();
                match got {
                    Some(SendSlot(slot)) if *it < self.iters.len() => {
                        self.drop_iter(*it, true);
                        self.log(format!(
                            "t={} T{} #{} takes a handed-over iterator (obj{}) into it{}",
                            now(),
                            me,
                            i,
                            slot.obj.id,
                            it
                        ));
                        self.iters[*it] = Some(slot);
                    }
                    Some(SendSlot(slot)) => drop(slot),
                    None => self.log(format!("t={} T{} #{} take: nothing handed over", now(), me, i)),
                }
            }
            Op::ClockAdvance { ms } => {
                crate::clock::jump_ms(*ms);
                wlock(&self.world).rec.clock_jumps += 1;
                self.log(format!(
                    "t={} T{} #{} simulated clock +{}ms",
                    now(),
                    self.me(),
                    i,
                    ms
                ));
            }
            Op::DebugFmt { slot } => {
                let obj = self.get_obj(*slot);
                self.log(format!(
                    "t={} T{} #{} debug-format slot={} {}",
                    now(),
                    self.me(),
                    i,
                    slot,
                    obj.as_ref()
                        .map_or("(empty)".to_string(), |o| format!("obj{}", o.id))
                ));
                if let Some(o) = obj {
                    self.begin_call(Some(&o));
                    let (_r, steps) = exec::guarded(0, || {
                        let s = format!("{:?}", o.re.0);
                        std::hint::black_box(s.len())
                    });
                    self.end_call();
                    let we = work_entry("debugfmt", "", None, i, self.me(), hook::last_sig(), steps);
                    let mut w = wlock(&self.world);
                    w.rec.debug_fmts += 1;
                    w.workload.push(we);
                }
            }
        }
    }
}

fn thread_main(mut ctx: Ctx) {
    let idx = ctx.me();
    ctx.sim.shared.tcells[idx]
        .tid
        .store(sched::gettid(), Ordering::Relaxed);
    if ctx.fresh && ctx.spec.exit_list_first {
        // register the harness's thread-local before the library's
        let _ = EXIT_CALLS.try_with(|l| l.0.borrow().len());
    }
    hook::attach(Some(ctx.sim.clone()), ctx.spec.mask());
    crate::clock::set_sim_thread(true);
    let _ = hook::take_jumps_fired();
    ctx.sim.start();
    let spec = ctx.spec.clone();
    for (i, op) in spec.scripts[idx].iter().enumerate() {
        ctx.sim.boundary();
        ctx.exec_op(i, op);
        if idx == 0 {
            ctx.sim.with(|s| s.setup_progress());
        }
    }
    // let go of iterators while still holding the token
    for it in 0..ctx.iters.len() {
        ctx.drop_iter(it, true);
    }
    {
        let mut w = wlock(&ctx.world);
        let p = hook::take_probes();
        for (a, b) in w.probes.iter_mut().zip(p.iter()) {
            *a += *b;
        }
        w.rec.steps += hook::total_steps();
        w.rec.clock_jumps += hook::take_jumps_fired();
        let (e, o) = hook::take_edge_counts();
        w.rec.edges += e;
        w.rec.edge_offers += o;
        if hook::did_cold_init() {
            w.rec.cold = true;
            w.rec.cold_init_thread = idx as i64;
        }
    }
    let sim = ctx.sim.clone();
    drop(ctx);
    hook::attach(None, 0);
    hook::arm_jump(0, 0);
    crate::clock::set_sim_thread(false);
    sim.exit();
}

type PoolJob = Box<dyn FnOnce() + Send + 'static>;

/// Long-lived caller threads of a worker process. Their thread-local storage and
/// allocator caches carry history from run to run, as the threads of a long-running
/// program do.
pub struct CallerPool {
    txs: Vec<std::sync::mpsc::Sender<PoolJob>>,
    done_rx: std::sync::mpsc::Receiver<usize>,
}

impl CallerPool {
    pub fn new(n: usize) -> CallerPool {
        let (done_tx, done_rx) = std::sync::mpsc::channel::<usize>();
        let mut txs = Vec::new();
        for i in 0..n {
            let (tx, rx) = std::sync::mpsc::channel::<PoolJob>();
            let done = done_tx.clone();
            // threads are started one at a time and each makes its first allocation before
            // the next one is spawned: glibc creates a thread's malloc arena at its first
            // malloc, and a race between starting threads would make heap addresses (hence
            // the probe sequences of address-keyed hash maps in the library) differ between
            // two executions of the same batch
            let (ready_tx, ready_rx) = std::sync::mpsc::channel::<()>();
            std::thread::Builder::new()
                .stack_size(THREAD_STACK)
                .name(format!("caller-{}", i))
                .spawn(move || {
                    let warm = std::hint::black_box(Box::new([0u8; 64]));
                    drop(warm);
                    let _ = ready_tx.send(());
                    while let Ok(job) = rx.recv() {
                        job();
                        if done.send(i).is_err() {
                            break;
                        }
                    }
                })
                .expect("spawn caller thread");
            let _ = ready_rx.recv();
            txs.push(tx);
        }
        CallerPool { txs, done_rx }
    }
    pub fn size(&self) -> usize {
        self.txs.len()
    }
}

pub struct RunOutput {
    pub rec: RunRecord,
    /// Threads were leaked (wall-clock guard or deadlock): the process must not run
    /// further simulations.
    pub poisoned: bool,
}

pub fn run(
    spec: RunSpec,
    refc: &Arc<Mutex<RefClient>>,
    pool: Option<&CallerPool>,
    keep_log: bool,
    want_spec: bool,
    want_trace: bool,
) -> RunOutput {
    let spec = Arc::new(spec);
    hashkeys::reseed(spec.hash_stream);
    let _ = crate::envseam::take_counts();
    let _ = crate::envseam::take_cpu_reads();
    crate::envseam::set_plan(spec.env_plan);
    hook::new_run_epoch();
    CLOCK.store(0, Ordering::Relaxed);
    let (shared, threads) = sched::new_shared(&spec, keep_log);
    let (req0, miss0) = {
        let c = refc.lock().unwrap_or_else(|e| e.into_inner());
        (c.requests, c.misses)
    };
    let mut rec = RunRecord {
        seed: spec.seed,
        flavor: spec.flavor.clone(),
        policy: spec.policy_name(),
        threads: spec.threads(),
        ops: spec.total_ops(),
        crashes_planned: spec.crashes.len() as u64,
        cold_init_thread: -1,
        ..Default::default()
    };
    let world = Arc::new(Mutex::new(World {
        pool: vec![None; spec.slots.min(MAX_SLOTS)],
        next_obj: 0,
        freed_addrs: Vec::new(),
        live_iters: HashMap::new(),
        unstable_reported: Vec::new(),
        rec: std::mem::take(&mut rec),
        probes: [0; NSITES],
        callsigs: Vec::new(),
        workload: Vec::new(),
        mailbox: (0..spec.threads()).map(|_| Vec::new()).collect(),
    }));
    let use_pool = match pool {
        Some(p) => !spec.fresh_threads && p.size() >= spec.threads(),
        None => false,
    };
    {
        let mut g = sched::lock(&shared.m);
        if want_trace {
            g.trace = Some(Vec::new());
        }
        g.exit_via_driver = !use_pool;
        let line = format!(
            "run seed={} flavor={} cfg{{threads={} slots={} policy={} crashes={} mask={:#x}:{:#x} hashstream={:#x} setup_ops={} explicit_schedule={} caller_threads={}}}",
            spec.seed,
            spec.flavor,
            spec.threads(),
            spec.slots,
            spec.policy_name(),
            spec.crashes.len(),
            spec.mask_hi,
            spec.mask_lo,
            spec.hash_stream,
            spec.setup_ops,
            spec.decisions.is_some(),
            if use_pool { "long-lived" } else { "fresh" }
        );
        g.logline(&line);
    }
    let mut handles: Vec<Option<std::thread::JoinHandle<()>>> = Vec::new();
    for sim in &threads {
        let (sim_c, spec_c, world_c, refc_c) =
            (sim.clone(), spec.clone(), world.clone(), refc.clone());
        let shared2 = shared.clone();
        let world2 = world.clone();
        let (ready_tx, ready_rx) = std::sync::mpsc::channel::<()>();
        let body = move || {
            {
                // first allocation of this OS thread (see CallerPool::new)
                let warm = std::hint::black_box(Box::new([0u8; 64]));
                drop(warm);
                let _ = ready_tx.send(());
            }
            let r = std::panic::catch_unwind(std::panic::AssertUnwindSafe(|| {
                thread_main(Ctx {
                    buf: String::with_capacity(256),
                    fresh: !use_pool,
                    sim: sim_c,
                    spec: spec_c,
                    world: world_c,
                    refc: refc_c,
                    iters: (0..MAX_ITERS).map(|_| None).collect(),
                })
            }));
            if let Err(p) = r {
                let msg = if let Some(s) = p.downcast_ref::<&str>() {
                    s.to_string()
                } else if let Some(s) = p.downcast_ref::<String>() {
                    s.clone()
                } else {
                    "harness thread panicked".to_string()
                };
                wlock(&world2).rec.harness_error = Some(msg);
                let mut g = sched::lock(&shared2.m);
                g.done = true;
                shared2.main_cv.notify_all();
            }
        };
        if use_pool {
            // rotate which long-lived thread plays which simulated thread
            let p = pool.unwrap();
            let os = (sim.idx + (spec.seed % p.size() as u64) as usize) % p.size();
            p.txs[os].send(Box::new(body)).expect("caller thread gone");
        } else {
            let h = std::thread::Builder::new()
                .stack_size(THREAD_STACK)
                .name(format!("sim-T{}", sim.idx))
                .spawn(body)
                .expect("spawn simulated thread");
            // one at a time: deterministic creation order of stacks and malloc arenas
            let _ = ready_rx.recv();
            handles.push(Some(h));
        }
    }
    sched::kick_off(&shared);
    // soak runs make hundreds of thousands of calls: give them more wall-clock
    let wall = if spec.flavor == "s" { 150 } else { 20 };
    let in_time = sched::drive(&shared, std::time::Duration::from_secs(wall), |i| {
        if let Some(h) = handles.get_mut(i).and_then(|h| h.take()) {
            let _ = h.join();
        }
    });
    let (deadlock, harness_err) = {
        let g = sched::lock(&shared.m);
        (g.deadlock, wlock(&world).rec.harness_error.is_some())
    };
    let poisoned = !in_time || deadlock || harness_err;
    if !poisoned {
        for h in handles.into_iter().flatten() {
            let _ = h.join();
        }
        if use_pool {
            for _ in 0..spec.threads() {
                let _ = pool.unwrap().done_rx.recv();
            }
        }
    }
    crate::envseam::set_plan(0);
    let (env_reads, env_perturbed, env_keys) = crate::envseam::take_counts();
    let mut w = wlock(&world);
    let mut rec = std::mem::take(&mut w.rec);
    rec.env_reads = env_reads;
    rec.env_perturbed = env_perturbed;
    rec.env_keys = env_keys;
    rec.cpu_reads = crate::envseam::take_cpu_reads();
    if want_trace {
        rec.callsigs = Some(std::mem::take(&mut w.callsigs));
        rec.workload = Some(std::mem::take(&mut w.workload));
    }
    rec.probes = w
        .probes
        .iter()
        .enumerate()
        .filter(|(_, &c)| c > 0)
        .map(|(i, &c)| (i as u32, c))
        .collect();
    drop(w);
    {
        let mut g = sched::lock(&shared.m);
        let end = format!(
            "end steps={} switches={} intra_call_preemptions={} decisions={}",
            rec.steps,
            g.switches,
            g.intra,
            g.decisions.len()
        );
        g.logline(&end);
        rec.log_hash = g.log_hash.0;
        rec.trace = g.trace.take();
        rec.pooled_threads = use_pool;
        rec.dense = hook::dense_build();
        rec.sched_hash = g.sched_hash.0;
        rec.ileave_hash = g.ileave_hash.0;
        rec.decisions = g.decisions.len();
        rec.switches = g.switches;
        rec.intra_call_preemptions = g.intra;
        rec.stalled = g.stalls;
        rec.thread_exits_joined = g.thread_exits_joined;
        rec.late_starts = g.late_starts;
        rec.library_yields = g.yields;
        rec.ext_blocked = g.ext_blocked;
        rec.nondet_window = g.nondet_window;
        rec.deadlock = g.deadlock;
        if g.deadlock {
            rec.violations.push(Violation {
                class: "deadlock".into(),
                thread: 0,
                op: 0,
                poll: 0,
                t: now(),
                request: "all live caller threads blocked inside the library".into(),
                expected: "calls complete".into(),
                got: "no thread can make progress".into(),
            });
        }
        if !in_time {
            rec.inconclusive
                .push(format!("wall-clock guard: run did not finish in {} s", wall));
        }
        if keep_log || !rec.violations.is_empty() {
            rec.log = Some(g.log.clone());
        }
        if want_spec || !rec.violations.is_empty() {
            rec.decision_list = Some(g.decisions.clone());
            rec.spec = Some((*spec).clone());
        }
    }
    {
        let c = refc.lock().unwrap_or_else(|e| e.into_inner());
        rec.ref_requests = c.requests - req0;
        rec.ref_misses = c.misses - miss0;
    }
    RunOutput { rec, poisoned }
}
