//! Minimisation of a failing execution and replay files. Every candidate is executed in a
//! fresh worker process; a reduction is kept if the same violation class on the same kind
//! of operation persists.

use crate::model::*;
use crate::pool::run_batch;
use crate::worker::Job;
use serde::{Deserialize, Serialize};
use std::time::Duration;

#[derive(Serialize, Deserialize, Debug, Clone)]
pub struct Replay {
    pub property: String,
    /// "sim" | "probe" | "miri"
    pub engine: String,
    pub seed: u64,
    pub violation: Option<Violation>,
    /// Jobs to execute in order in one fresh worker process; earlier jobs are only needed
    /// when the violation depends on process history (given as seeds, regenerated).
    pub batch_prefix: Vec<(u64, String)>,
    /// The failing run, fully explicit (scripts, fault plan, decision list).
    pub spec: Option<RunSpec>,
    pub minimised_from: serde_json::Value,
    pub repo_fingerprint: String,
    pub note: String,
    /// Execute in the dense build (basic-block edges as scheduling points).
    #[serde(default)]
    pub dense: bool,
}

fn method_of(v: &Violation) -> &'static str {
    for m in ["is_match", "replace_all", "tokenize", "analyze", "compile"] {
        if v.request.contains(&format!("].{}(", m)) || v.request.starts_with(m) {
            return m;
        }
    }
    "?"
}

fn same_kind(a: &Violation, class: &str, method: &str) -> bool {
    a.class == class && (method == "?" || method_of(a) == method || class != "result-mismatch")
}

fn to_jobs(prefix: &[(u64, String)], spec: &RunSpec, dense: bool) -> Vec<Job> {
    let mut jobs: Vec<Job> = prefix
        .iter()
        .map(|(s, f)| Job {
            seed: *s,
            flavor: f.clone(),
            dense,
            ..Default::default()
        })
        .collect();
    jobs.push(Job {
        seed: spec.seed,
        flavor: "x".into(),
        log: true,
        want_spec: true,
        spec: Some(spec.clone()),
        want_trace: false,
        dense,
    });
    jobs
}

/// Execute prefix + spec in a fresh worker; Some(record of the last job) if it shows a
/// violation of the wanted kind.
thread_local! {
    static DENSE: std::cell::Cell<bool> = const { std::cell::Cell::new(false) };
}

fn fails(
    sock: &str,
    prefix: &[(u64, String)],
    spec: &RunSpec,
    class: &str,
    method: &str,
) -> Option<RunRecord> {
    let jobs = to_jobs(prefix, spec, DENSE.with(|d| d.get()));
    let res = run_batch(sock, &jobs, Duration::from_secs(45));
    let last = res.records.into_iter().last()??;
    if last.violations.iter().any(|v| same_kind(v, class, method)) {
        Some(last)
    } else {
        None
    }
}

fn drop_thread(spec: &RunSpec, t: usize) -> RunSpec {
    let mut s = spec.clone();
    s.scripts.remove(t);
    s.crashes.retain(|c| c.thread != t);
    for c in s.crashes.iter_mut() {
        if c.thread > t {
            c.thread -= 1;
        }
    }
    s.jumps.retain(|c| c.thread != t);
    for c in s.jumps.iter_mut() {
        if c.thread > t {
            c.thread -= 1;
        }
    }
    if t == 0 {
        s.setup_ops = 0;
    }
    if let Policy::Stall { victim, p, .. } = &mut s.policy {
        if *victim == t {
            s.policy = Policy::Random { p: *p };
        } else if *victim > t {
            *victim -= 1;
        }
    }
    if s.scripts.len() == 1 {
        s.policy = Policy::Seq;
    }
    if let Some(l) = &mut s.late {
        if t < l.len() {
            l.remove(t);
        }
        for e in l.iter_mut() {
            *e = match *e {
                Some(i) if i == t => None,
                Some(i) if i > t => Some(i - 1),
                x => x,
            };
        }
    }
    s.decisions = None;
    s
}

fn drop_op(spec: &RunSpec, t: usize, i: usize) -> RunSpec {
    let mut s = spec.clone();
    s.scripts[t].remove(i);
    s.crashes.retain(|c| !(c.thread == t && c.op == i));
    for c in s.crashes.iter_mut() {
        if c.thread == t && c.op > i {
            c.op -= 1;
        }
    }
    s.jumps.retain(|c| !(c.thread == t && c.op == i));
    for c in s.jumps.iter_mut() {
        if c.thread == t && c.op > i {
            c.op -= 1;
        }
    }
    if t == 0 && i < s.setup_ops {
        s.setup_ops -= 1;
    }
    s.decisions = None;
    s
}

fn shrink_str(s: &str) -> Vec<String> {
    let cs: Vec<char> = s.chars().collect();
    let mut out = Vec::new();
    if cs.len() >= 2 {
        out.push(cs[..cs.len() / 2].iter().collect());
        out.push(cs[cs.len() / 2..].iter().collect());
        out.push(cs[..cs.len() - 1].iter().collect());
        out.push(cs[1..].iter().collect());
    }
    out
}

pub fn fingerprint() -> String {
    // cheap content fingerprint of the library sources the run was built from
    let mut h = crate::rng::Fnv::default();
    let mut files: Vec<_> = std::fs::read_dir("/repo/regexml/src")
        .map(|d| d.flatten().map(|e| e.path()).collect())
        .unwrap_or_else(|_| Vec::new());
    files.sort();
    for f in files {
        if f.extension().map_or(false, |e| e == "rs") {
            if let Ok(b) = std::fs::read(&f) {
                h.bytes(f.to_string_lossy().as_bytes());
                h.bytes(&b);
            }
        }
    }
    format!("fnv64:{:016x}", h.0)
}

pub fn minimise_and_write(
    sock: &str,
    prefix_jobs: &[Job],
    failing: &Job,
    rec: &RunRecord,
    nondet_window: bool,
) -> Option<String> {
    DENSE.with(|d| d.set(failing.dense));
    let v0 = rec.violations.first()?.clone();
    let class = v0.class.clone();
    let method = method_of(&v0);
    let mut spec = match &rec.spec {
        Some(s) => s.clone(),
        None => crate::gen::generate(failing.seed, &failing.flavor),
    };
    let orig_spec = spec.clone();
    let orig_prefix: Vec<(u64, String)> = prefix_jobs
        .iter()
        .map(|j| (j.seed, j.flavor.clone()))
        .collect();
    let original_ops = spec.total_ops();
    let original_threads = spec.threads();
    let original_crashes = spec.crashes.len();
    let mut prefix: Vec<(u64, String)> = prefix_jobs
        .iter()
        .map(|j| (j.seed, j.flavor.clone()))
        .collect();
    let original_prefix = prefix.len();
    let mut trials = 0usize;
    // soak runs take seconds each: fewer trials
    let budget = if spec.flavor == "s" { 30usize } else { 260usize };

    // 1. does it reproduce alone (cold process)?
    let mut last = None;
    if let Some(r) = fails(sock, &[], &spec, &class, method) {
        prefix.clear();
        last = Some(r);
    } else if let Some(r) = fails(sock, &prefix, &spec, &class, method) {
        last = Some(r);
        // shrink the history prefix by chopping chunks
        let mut chunk = (prefix.len() / 2).max(1);
        while chunk >= 1 && trials < 60 && !prefix.is_empty() {
            let mut i = 0;
            let mut changed = false;
            while i < prefix.len() && trials < 60 {
                let mut cand = prefix.clone();
                let end = (i + chunk).min(cand.len());
                cand.drain(i..end);
                trials += 1;
                if let Some(r) = fails(sock, &cand, &spec, &class, method) {
                    prefix = cand;
                    last = Some(r);
                    changed = true;
                } else {
                    i += chunk;
                }
            }
            if chunk == 1 && !changed {
                break;
            }
            chunk = (chunk / 2).max(1);
            if chunk == 1 && !changed {
                // one more pass at size 1 happens through the loop condition
            }
        }
    }
    let mut last = last?;

    // 2. structural reductions under the seeded policy
    let mut progress = true;
    while progress && trials < budget {
        progress = false;
        // threads
        let mut t = spec.threads();
        while t > 0 && spec.threads() > 1 && trials < budget {
            t -= 1;
            let cand = drop_thread(&spec, t);
            trials += 1;
            if let Some(r) = fails(sock, &prefix, &cand, &class, method) {
                spec = cand;
                last = r;
                progress = true;
            }
        }
        // operations
        for t in 0..spec.threads() {
            let mut i = spec.scripts[t].len();
            while i > 0 && trials < budget {
                i -= 1;
                let cand = drop_op(&spec, t, i);
                trials += 1;
                if let Some(r) = fails(sock, &prefix, &cand, &class, method) {
                    spec = cand;
                    last = r;
                    progress = true;
                }
            }
        }
        // faults
        let mut c = spec.crashes.len();
        while c > 0 && trials < budget {
            c -= 1;
            let mut cand = spec.clone();
            cand.crashes.remove(c);
            cand.decisions = None;
            trials += 1;
            if let Some(r) = fails(sock, &prefix, &cand, &class, method) {
                spec = cand;
                last = r;
                progress = true;
            }
        }
        // clock jumps
        let mut c = spec.jumps.len();
        while c > 0 && trials < budget {
            c -= 1;
            let mut cand = spec.clone();
            cand.jumps.remove(c);
            cand.decisions = None;
            trials += 1;
            if let Some(r) = fails(sock, &prefix, &cand, &class, method) {
                spec = cand;
                last = r;
                progress = true;
            }
        }
        // simpler policy
        if spec.policy != Policy::Seq && trials < budget {
            let mut cand = spec.clone();
            cand.policy = Policy::Seq;
            cand.mask_lo = 0;
            cand.mask_hi = 0;
            cand.decisions = None;
            trials += 1;
            if let Some(r) = fails(sock, &prefix, &cand, &class, method) {
                spec = cand;
                last = r;
                progress = true;
            }
        }
    }
    // 3. shrink arguments
    for t in 0..spec.threads() {
        for i in 0..spec.scripts[t].len() {
            for field in 0..2 {
                let cur = match (&spec.scripts[t][i], field) {
                    (Op::IsMatch { input, .. }, 0)
                    | (Op::ReplaceAll { input, .. }, 0)
                    | (Op::Tokenize { input, .. }, 0)
                    | (Op::Analyze { input, .. }, 0) => input.clone(),
                    (Op::ReplaceAll { repl, .. }, 1) => repl.clone(),
                    _ => continue,
                };
                for shorter in shrink_str(&cur) {
                    if trials >= budget {
                        break;
                    }
                    let mut cand = spec.clone();
                    match (&mut cand.scripts[t][i], field) {
                        (Op::IsMatch { input, .. }, 0)
                        | (Op::ReplaceAll { input, .. }, 0)
                        | (Op::Tokenize { input, .. }, 0)
                        | (Op::Analyze { input, .. }, 0) => *input = shorter,
                        (Op::ReplaceAll { repl, .. }, 1) => *repl = shorter,
                        _ => {}
                    }
                    cand.decisions = None;
                    trials += 1;
                    if let Some(r) = fails(sock, &prefix, &cand, &class, method) {
                        spec = cand;
                        last = r;
                        break;
                    }
                }
            }
        }
    }
    // 4. freeze the schedule as an explicit decision list, then shorten it
    let decisions_total = last.decision_list.clone().unwrap_or_default();
    if let Some(dl) = last.decision_list.clone() {
        let mut cand = spec.clone();
        cand.decisions = Some(dl.clone());
        if let Some(r) = fails(sock, &prefix, &cand, &class, method) {
            spec = cand;
            last = r;
            let mut cuts: Vec<usize> = vec![0];
            let mut c = 1;
            while c < dl.len() {
                cuts.push(c);
                c *= 2;
            }
            for cut in cuts {
                if trials >= budget + 20 {
                    break;
                }
                let mut cand = spec.clone();
                cand.decisions = Some(dl[..cut.min(dl.len())].to_vec());
                trials += 1;
                if let Some(r) = fails(sock, &prefix, &cand, &class, method) {
                    spec = cand;
                    last = r;
                    break;
                }
            }
        }
    }
    let viol = last
        .violations
        .iter()
        .find(|v| same_kind(v, &class, method))
        .cloned();
    let replay = Replay {
        property: "C18".into(),
        engine: "sim".into(),
        seed: rec.seed,
        violation: viol,
        batch_prefix: prefix.clone(),
        spec: Some(spec.clone()),
        minimised_from: serde_json::json!({
            "ops": original_ops, "threads": original_threads, "crashes": original_crashes,
            "decisions": decisions_total.len(), "batch_prefix": original_prefix,
            "trials": trials,
        }),
        repo_fingerprint: fingerprint(),
        dense: failing.dense,
        note: format!(
            "final: {} ops on {} threads, {} crashes, {} explicit decisions, {} history runs before it{}",
            spec.total_ops(),
            spec.threads(),
            spec.crashes.len(),
            spec.decisions.as_ref().map_or(0, |d| d.len()),
            prefix.len(),
            if nondet_window { "; found in a run with an externally blocked thread (brief window of real concurrency)" } else { "" }
        ),
    };
    let _ = std::fs::create_dir_all("/verif/replays");
    let path = format!("/verif/replays/C18-{}-{}.json", rec.seed, std::process::id());
    std::fs::write(&path, serde_json::to_string_pretty(&replay).unwrap()).ok()?;
    // the replay file must reproduce 3/3 in fresh processes before anything is reported
    let mut confirmed = true;
    for _ in 0..3 {
        if fails(sock, &prefix, &spec, &class, method).is_none() {
            confirmed = false;
            break;
        }
    }
    if confirmed {
        return Some(path);
    }
    // The minimised variant is timing dependent (it races with something the scheduler does
    // not own, e.g. threads the library starts itself). Fall back to the run as it was
    // found, with its whole process history, and report it only if that reproduces 3/3.
    let _ = std::fs::rename(&path, format!("{}.unconfirmed", path));
    let mut replay = replay;
    for _ in 0..3 {
        match fails(sock, &orig_prefix, &orig_spec, &class, method) {
            Some(r) => {
                replay.violation = r
                    .violations
                    .iter()
                    .find(|v| same_kind(v, &class, method))
                    .cloned();
            }
            None => return None,
        }
    }
    replay.batch_prefix = orig_prefix.clone();
    replay.spec = Some(orig_spec.clone());
    replay.note = format!(
        "not minimised: the minimised variant ({}) did not reproduce 3/3 (timing dependent); this is the run as found: {} ops on {} threads, {} crashes, {} history runs before it",
        replay.note,
        orig_spec.total_ops(),
        orig_spec.threads(),
        orig_spec.crashes.len(),
        orig_prefix.len()
    );
    std::fs::write(&path, serde_json::to_string_pretty(&replay).unwrap()).ok()?;
    Some(path)
}

pub fn write_probe_replay(probe: (bool, bool)) -> String {
    let replay = Replay {
        property: "C18".into(),
        engine: "probe".into(),
        seed: 0,
        violation: Some(Violation {
            class: "not-send-sync".into(),
            thread: 0,
            op: 0,
            poll: 0,
            t: 0,
            request: "Regex: Send + Sync".into(),
            expected: "Send=true Sync=true".into(),
            got: format!("Send={} Sync={}", probe.0, probe.1),
        }),
        batch_prefix: vec![],
        spec: None,
        minimised_from: serde_json::json!({}),
        repo_fingerprint: fingerprint(),
        dense: false,
        note: "auto-trait probe compiled against the current tree".into(),
    };
    let _ = std::fs::create_dir_all("/verif/replays");
    let path = format!("/verif/replays/C18-probe-{}.json", std::process::id());
    let _ = std::fs::write(&path, serde_json::to_string_pretty(&replay).unwrap());
    path
}

/// `./check C18 --replay <file>`: execute the file in a fresh worker process, print what
/// is observed. Exit 1 with a VIOLATION line if the violation shows again, 0 otherwise.
pub fn replay_file(path: &str) -> i32 {
    let text = match std::fs::read_to_string(path) {
        Ok(t) => t,
        Err(e) => {
            eprintln!("cannot read {}: {}", path, e);
            return 2;
        }
    };
    let rp: Replay = match serde_json::from_str(&text) {
        Ok(r) => r,
        Err(e) => {
            eprintln!("cannot parse {}: {}", path, e);
            return 2;
        }
    };
    if rp.engine == "probe" {
        let p = crate::probe::send_sync_probe();
        println!("static facet: Regex: Send={} Sync={}", p.0, p.1);
        if !(p.0 && p.1) {
            println!("VIOLATION property=C18 replay={}", path);
            return 1;
        }
        println!("replay: Regex is Send + Sync on the current tree");
        return 0;
    }
    let spec = match rp.spec {
        Some(s) => s,
        None => {
            eprintln!("replay file has no spec");
            return 2;
        }
    };
    if rp.repo_fingerprint != fingerprint() {
        println!(
            "note: /repo/regexml/src changed since this file was written ({} -> {})",
            rp.repo_fingerprint,
            fingerprint()
        );
    }
    let lanes = crate::pool::Lanes::start(1, false);
    let jobs = to_jobs(&rp.batch_prefix, &spec, rp.dense);
    let res = run_batch(&lanes.all(), &jobs, Duration::from_secs(60));
    let last = match res.records.into_iter().last().flatten() {
        Some(r) => r,
        None => {
            eprintln!("replay: worker gave no record ({:?})", res.note);
            return 2;
        }
    };
    if let Some(l) = &last.log {
        print!("{}", l);
    }
    if last.violations.is_empty() {
        println!("replay: no violation observed on the current tree");
        0
    } else {
        for v in &last.violations {
            println!(
                "violation class={} T{} op#{} poll {} t={} {}\n  expected: {}\n  got:      {}",
                v.class, v.thread, v.op, v.poll, v.t, v.request, v.expected, v.got
            );
        }
        println!("VIOLATION property=C18 replay={}", path);
        1
    }
}
