//! Static facet of C18: `Regex: Send + Sync`, decided by an auto-trait probe
//! (inherent method shadows the blanket trait method only when the bound holds), so the
//! harness still compiles if a change makes `Regex` lose an auto trait.

use std::marker::PhantomData;

struct Probe<T>(PhantomData<T>);

trait Fallback {
    fn is_send(&self) -> bool {
        false
    }
    fn is_sync(&self) -> bool {
        false
    }
}
impl<T> Fallback for Probe<T> {}

#[allow(dead_code)]
impl<T: Send> Probe<T> {
    fn is_send(&self) -> bool {
        true
    }
}
#[allow(dead_code)]
impl<T: Sync> Probe<T> {
    fn is_sync(&self) -> bool {
        true
    }
}

pub fn send_sync_probe() -> (bool, bool) {
    let p = Probe::<regexml::Regex>(PhantomData);
    (p.is_send(), p.is_sync())
}

fn mk<T>(_: &T) -> Probe<T> {
    Probe(PhantomData)
}

/// Are the iterators returned by `tokenize` / `analyze` `Send` on this tree? (They are not
/// on the pinned tree; a change that makes them `Send` makes handing a live iterator to
/// another thread legal, and then the harness does it.)
pub fn iter_send_probe() -> (bool, bool) {
    let re = match regexml::Regex::xpath("a", "") {
        Ok(r) => r,
        Err(_) => return (false, false),
    };
    let t = match re.tokenize("a") {
        Ok(t) => mk(&t).is_send(),
        Err(_) => false,
    };
    let a = match re.analyze("a") {
        Ok(a) => mk(&a).is_send(),
        Err(_) => false,
    };
    (t, a)
}

#[allow(dead_code)]
pub fn selftest() -> bool {
    let a = Probe::<std::cell::RefCell<i32>>(PhantomData);
    let b = Probe::<std::rc::Rc<i32>>(PhantomData);
    let c = Probe::<String>(PhantomData);
    a.is_send() && !a.is_sync() && !b.is_send() && !b.is_sync() && c.is_send() && c.is_sync()
}
