//! Summary of the Miri stage (second engine, thorough tier). The stage itself is driven by
//! the `check` script (it needs the nightly toolchain); its result file is read here so the
//! evidence file carries it.

pub fn last_summary() -> serde_json::Value {
    match std::fs::read_to_string("/verif/target/miri-summary.json") {
        Ok(s) => serde_json::from_str(&s).unwrap_or(serde_json::json!({"stage": "unreadable summary"})),
        Err(_) => serde_json::json!({"stage": "not run in this invocation"}),
    }
}
