//! Data model of one simulated execution: objects, operations, scripts, fault plan,
//! scheduler configuration. A `RunSpec` is fully explicit (it *is* the replay file
//! payload); `gen::generate` derives one from a seed.

use serde::{Deserialize, Serialize};

pub const MAX_THREADS: usize = 6;
pub const MAX_SLOTS: usize = 8;
/// Thread-local iterator slots (the ordinary script style uses the first NORMAL_ITERS).
pub const MAX_ITERS: usize = 12;
pub const NORMAL_ITERS: usize = 3;
/// Every iterator is polled at most this many times in total; the reference always
/// computes exactly this many polls.
pub const POLL_CAP: usize = 40;
/// Step budget (hook hits) per call / per single `next()`; beyond it the call's outcome
/// is `Diverged` on both the simulated and the reference side.
pub const STEP_BUDGET: u64 = 60_000;

#[derive(Clone, Debug, PartialEq, Eq, Hash, Serialize, Deserialize)]
pub struct Key {
    pub xsd: bool,
    pub p: String,
    pub f: String,
}

impl Key {
    pub fn show(&self) -> String {
        format!(
            "{} {:?} {:?}",
            if self.xsd { "xsd" } else { "xpath" },
            self.p,
            self.f
        )
    }
}

#[derive(Clone, Copy, Debug, PartialEq, Eq, Hash, Serialize, Deserialize)]
pub enum Method {
    Compile,
    IsMatch,
    ReplaceAll,
    Tokenize,
    Analyze,
}

impl Method {
    pub fn name(self) -> &'static str {
        match self {
            Method::Compile => "compile",
            Method::IsMatch => "is_match",
            Method::ReplaceAll => "replace_all",
            Method::Tokenize => "tokenize",
            Method::Analyze => "analyze",
        }
    }
    pub fn from_name(s: &str) -> Option<Method> {
        Some(match s {
            "compile" => Method::Compile,
            "is_match" => Method::IsMatch,
            "replace_all" => Method::ReplaceAll,
            "tokenize" => Method::Tokenize,
            "analyze" => Method::Analyze,
            _ => return None,
        })
    }
}

/// One call as the reference model sees it: (object key, method, arguments).
#[derive(Clone, Debug, PartialEq, Eq, Hash, Serialize, Deserialize)]
pub struct Request {
    pub key: Key,
    pub method: Method,
    pub input: String,
    pub repl: String,
}

impl Request {
    pub fn show(&self) -> String {
        match self.method {
            Method::Compile => format!("compile[{}]", self.key.show()),
            Method::ReplaceAll => format!(
                "[{}].replace_all({:?}, {:?})",
                self.key.show(),
                self.input,
                self.repl
            ),
            m => format!("[{}].{}({:?})", self.key.show(), m.name(), self.input),
        }
    }
}

/// What the reference process answered for a request.
#[derive(Clone, Debug, PartialEq, Eq, Serialize, Deserialize)]
pub struct RefResult {
    /// Outcome of the call itself (for tokenize/analyze: of opening the iterator).
    pub open: String,
    /// Hook steps the call took in the reference process.
    pub steps: u64,
    /// For iterators: outcome of each of the first POLL_CAP polls (stops early after a
    /// `Panicked`/`Diverged` poll, after which the iterator is dropped on both sides).
    pub polls: Vec<String>,
    pub poll_steps: Vec<u64>,
    /// The reference process computed the request under two different hash-key streams
    /// and got different answers.
    pub unstable: bool,
    /// The two evaluations differed only in that one ran into the step budget: a
    /// `Diverged` outcome for this request is not evidence of anything.
    #[serde(default)]
    pub budget_sensitive: bool,
}

#[derive(Clone, Debug, PartialEq, Eq, Serialize, Deserialize)]
pub enum Op {
    /// Compile `key` and store the object in pool slot `slot` (replacing what was there).
    Compile {
        slot: usize,
        key: Key,
        /// Drop the object currently in the slot *before* compiling (address reuse inside
        /// the new object, F5) instead of replacing it afterwards.
        #[serde(default)]
        drop_first: bool,
    },
    /// F5: drop the object in `slot` and at once compile its key again into `slot`.
    Recompile { slot: usize },
    /// Empty the slot (the object dies when its last user lets go of it).
    DropRegex { slot: usize },
    IsMatch { slot: usize, input: String },
    ReplaceAll { slot: usize, input: String, repl: String },
    /// Open a tokenize iterator into thread-local iterator slot `it` (dropping an
    /// iterator that was still there: F3).
    Tokenize { slot: usize, input: String, it: usize },
    Analyze { slot: usize, input: String, it: usize },
    /// Poll iterator `it` `n` times (each poll is a compared event; F4 when past the end).
    Next { it: usize, n: usize },
    /// Poll until the first `None` (or the poll cap).
    Drain { it: usize },
    /// F3: abandon the iterator.
    DropIter { it: usize },
    /// F3 variant: leak the iterator (`mem::forget`): its matcher state is never dropped.
    ForgetIter { it: usize },
    /// Long history on one object: `n` identical simple calls (is_match / replace_all), each
    /// compared with the reference; logged as one event. Used by the soak flavour to walk
    /// call counters across 2^8 / 2^16 boundaries.
    Soak {
        slot: usize,
        method: Method,
        input: String,
        repl: String,
        n: usize,
    },
    /// A dying caller that still uses the object: the call is made from a destructor while
    /// the calling thread is unwinding (`std::thread::panicking()` is true for the whole
    /// call). Simple calls only; compared like any other call.
    PanickingCall {
        slot: usize,
        method: Method,
        input: String,
        repl: String,
    },
    /// F10b: register a call that is made from a thread-local destructor when this caller
    /// thread exits (fresh-thread runs; on long-lived threads the call is made at once). The
    /// library's own thread-local storage may already be gone at that moment.
    AtExitCall {
        slot: usize,
        method: Method,
        input: String,
        repl: String,
    },
    /// Hand the live iterator in slot `it` to thread `to` (only when the iterator type is
    /// `Send` on the tree under test; otherwise skipped).
    GiveIter { it: usize, to: usize },
    /// Take an iterator another thread handed over into slot `it`.
    TakeIter { it: usize },
    /// F11: simulated time passes (no real sleeping) before the next operation.
    ClockAdvance { ms: u64 },
    /// Legal but unusual: `Debug`-format the object (and the thread's live iterators) in
    /// the middle of a history. The text is not compared; later results must not change.
    DebugFmt { slot: usize },
}

#[derive(Clone, Debug, PartialEq, Eq, Serialize, Deserialize)]
pub enum Policy {
    /// Never switch voluntarily (with one thread: pure call-history exploration).
    Seq,
    /// At each preemptible site switch with probability p/1000 to a uniformly chosen
    /// other runnable thread.
    Random { p: u32 },
    /// PCT: random priorities, `d` priority change points.
    Pct { d: u32, horizon: u32 },
    /// Switch only at operation boundaries (probability p/1000).
    OpGranular { p: u32 },
    /// F9: freeze `victim` at its `at`-th preemptible site hit inside an operation
    /// until every other thread has finished; others run under Random{p}.
    Stall {
        victim: usize,
        at: u32,
        p: u32,
        /// Release the victim after this many operation boundaries of other threads
        /// (0 = only when every other thread has finished).
        #[serde(default)]
        release: u32,
    },
}

/// F2: unwind thread `thread` at the `step`-th hook hit inside sub-call `poll` of its
/// operation number `op` (poll 0 for non-iterator operations).
#[derive(Clone, Debug, PartialEq, Eq, Serialize, Deserialize)]
pub struct Crash {
    pub thread: usize,
    pub op: usize,
    pub poll: usize,
    pub step: u64,
}

/// F11: the simulated clock jumps forward by `ms` at the `step`-th hook hit inside sub-call
/// `poll` of operation `op` of thread `thread`.
#[derive(Clone, Debug, PartialEq, Eq, Serialize, Deserialize)]
pub struct ClockJump {
    pub thread: usize,
    pub op: usize,
    pub poll: usize,
    pub step: u64,
    pub ms: u64,
}

#[derive(Clone, Debug, PartialEq, Eq, Serialize, Deserialize)]
pub struct RunSpec {
    pub seed: u64,
    /// "n" normal, "b" block-table heavy (used for cold-start runs), "x" explicit.
    pub flavor: String,
    pub slots: usize,
    pub policy: Policy,
    /// Which hook sites are preemptible in this run (bit = site id), as two words.
    pub mask_lo: u64,
    pub mask_hi: u64,
    pub sched_seed: u64,
    pub hash_stream: u64,
    /// Number of leading operations of thread 0 during which no other thread is started
    /// (used to populate the pool before the concurrent phase).
    pub setup_ops: usize,
    pub scripts: Vec<Vec<Op>>,
    pub crashes: Vec<Crash>,
    /// Explicit schedule: thread chosen at each decision point. When present the
    /// scheduler consults no PRNG.
    #[serde(default)]
    pub decisions: Option<Vec<u8>>,
    /// Run the caller threads on freshly spawned OS threads instead of the worker's
    /// long-lived caller threads (whose thread-local storage carries history).
    #[serde(default)]
    pub fresh_threads: bool,
    /// `late[j] = Some(i)`: caller thread j starts only after caller thread i has exited
    /// (with fresh threads: after its OS thread is gone and its thread-local destructors ran).
    #[serde(default)]
    pub late: Option<Vec<Option<usize>>>,
    #[serde(default)]
    pub jumps: Vec<ClockJump>,
    /// Touch the harness's at-exit list before the first library call of each thread, so
    /// that the library's thread-locals are registered later and destroyed earlier.
    #[serde(default)]
    pub exit_list_first: bool,
    /// F12: non-zero = seed of this run's environment perturbation plan (what `getenv`
    /// answers to the library inside calls); 0 = the real environment.
    #[serde(default)]
    pub env_plan: u64,
    /// Callers pass haystacks through one reused per-thread `String` buffer (same address,
    /// often same length, different content) instead of a separate string per call.
    #[serde(default)]
    pub reuse_input_buffer: bool,
}

impl RunSpec {
    pub fn threads(&self) -> usize {
        self.scripts.len()
    }
    pub fn mask(&self) -> u128 {
        (self.mask_lo as u128) | ((self.mask_hi as u128) << 64)
    }
    pub fn total_ops(&self) -> usize {
        self.scripts.iter().map(|s| s.len()).sum()
    }
    pub fn policy_name(&self) -> String {
        match &self.policy {
            Policy::Seq => "seq".into(),
            Policy::Random { p } => format!("random({})", *p as f64 / 1000.0),
            Policy::Pct { d, .. } => format!("pct({})", d),
            Policy::OpGranular { p } => format!("op-granular({})", *p as f64 / 1000.0),
            Policy::Stall { victim, at, .. } => format!("stall(T{}@{})", victim, at),
        }
    }
}

#[derive(Clone, Debug, PartialEq, Eq, Serialize, Deserialize)]
pub struct Violation {
    pub class: String,
    pub thread: usize,
    pub op: usize,
    pub poll: usize,
    pub t: u64,
    pub request: String,
    pub expected: String,
    pub got: String,
}

/// What a worker reports for one run.
#[derive(Clone, Debug, Default, Serialize, Deserialize)]
pub struct RunRecord {
    pub seed: u64,
    pub flavor: String,
    pub policy: String,
    pub threads: usize,
    pub ops: usize,
    /// Hash of the complete event log (decisions + outcomes).
    pub log_hash: u64,
    /// Hash of the decision trace only.
    pub sched_hash: u64,
    /// Hash of the (thread, site) pairs at context switches.
    pub ileave_hash: u64,
    pub steps: u64,
    pub decisions: usize,
    pub switches: u64,
    pub intra_call_preemptions: u64,
    pub compared: u64,
    pub skipped_no_object: u64,
    pub crashes_fired: u64,
    pub crashes_planned: u64,
    pub crash_excluded: u64,
    pub panicked: u64,
    pub diverged: u64,
    pub errors: u64,
    pub same_obj_overlap: u64,
    pub live_iter_overlap: u64,
    pub addr_reuse: u64,
    pub migrations: u64,
    pub polls_after_end: u64,
    pub abandoned_iters: u64,
    #[serde(default)]
    pub forgotten_iters: u64,
    #[serde(default)]
    pub debug_fmts: u64,
    #[serde(default)]
    pub soak_calls: u64,
    #[serde(default)]
    pub thread_exits_joined: u64,
    #[serde(default)]
    pub late_starts: u64,
    #[serde(default)]
    pub library_yields: u64,
    #[serde(default)]
    pub clock_jumps: u64,
    #[serde(default)]
    pub panicking_calls: u64,
    #[serde(default)]
    pub at_exit_calls: u64,
    #[serde(default)]
    pub iters_moved: u64,
    #[serde(default)]
    pub env_reads: u64,
    #[serde(default)]
    pub env_perturbed: u64,
    #[serde(default)]
    pub cpu_reads: u64,
    /// calls not made because their reference evaluation does not complete within the budget
    #[serde(default)]
    pub skipped_incomplete_reference: u64,
    /// compared outcomes of calls whose haystack is at least 4096 bytes long
    #[serde(default)]
    pub large_input_outcomes: u64,
    #[serde(default)]
    pub env_keys: Vec<String>,
    /// Dense build only: basic-block edges executed inside library calls, and how many of
    /// them were offered to the scheduler as preemption points.
    #[serde(default)]
    pub edges: u64,
    #[serde(default)]
    pub edge_offers: u64,
    #[serde(default)]
    pub dense: bool,
    pub recompiles: u64,
    pub stalled: u64,
    pub cold: bool,
    pub cold_init_thread: i64,
    pub ext_blocked: u64,
    pub nondet_window: bool,
    pub deadlock: bool,
    pub ref_requests: u64,
    pub ref_misses: u64,
    pub probes: Vec<(u32, u64)>,
    pub violations: Vec<Violation>,
    pub inconclusive: Vec<String>,
    /// Present when requested or when the run has a violation.
    pub spec: Option<RunSpec>,
    pub decision_list: Option<Vec<u8>>,
    pub log: Option<String>,
    pub harness_error: Option<String>,
    /// Checkpoints (event kind, running log hash) for locating the first divergence
    /// between two executions of the same run.
    #[serde(default)]
    pub trace: Option<Vec<(u8, u64)>>,
    #[serde(default)]
    pub pooled_threads: bool,
    /// (hash of request + poll index, path signature) of every compared call; only when
    /// a trace was requested.
    #[serde(default)]
    pub callsigs: Option<Vec<(u64, u64)>>,
    /// Calls whose path signature differs from an earlier execution of the same request in
    /// this worker process (the library took another path for the same call).
    /// (call identity, path signature + step count) of every guarded call of the run.
    #[serde(default)]
    pub workload: Option<Vec<(u64, u64)>>,
    #[serde(default)]
    pub path_impure: u64,
    #[serde(default)]
    pub path_impure_examples: Vec<String>,
}
