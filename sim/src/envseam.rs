//! F12 seam: the process environment. regexml reads no environment variable today; a change
//! may (locale-sensitive case folding, a debug switch, a tuning knob), and then a call's
//! result depends on process-global mutable state that neither history nor scheduling
//! explains. std's `env::var` ends in libc's `getenv`; this executable defines that symbol
//! itself (like `clock_gettime` in clock.rs). Outside a guarded library call on a simulated
//! caller thread it forwards to the real function. Inside one it records the key and, in
//! runs whose plan says so, answers from a small dictionary of hostile values chosen by
//! (run seed, key) — while the pristine reference process always sees the real environment.

use crate::rng::{mix, Fnv};
use std::ffi::CStr;
use std::os::raw::c_char;
use std::sync::atomic::{AtomicU64, Ordering};
use std::sync::Mutex;
use std::sync::OnceLock;

type GetenvFn = unsafe extern "C" fn(*const c_char) -> *mut c_char;

static READS: AtomicU64 = AtomicU64::new(0);
static PERTURBED: AtomicU64 = AtomicU64::new(0);
/// 0 = answer truthfully; otherwise the seed of this run's perturbation plan.
static PLAN: AtomicU64 = AtomicU64::new(0);

fn keys() -> &'static Mutex<Vec<String>> {
    static K: OnceLock<Mutex<Vec<String>>> = OnceLock::new();
    K.get_or_init(|| Mutex::new(Vec::new()))
}

/// NUL-terminated candidate values; index 0 means "unset".
const VALUES: &[&[u8]] = &[
    b"\0",
    b"tr_TR.UTF-8\0",
    b"az_AZ.UTF-8\0",
    b"C\0",
    b"1\0",
    b"0\0",
    b"en_US.ISO-8859-1\0",
    b"true\0",
    b"9999999\0",
];

fn real_getenv() -> Option<GetenvFn> {
    static REAL: OnceLock<usize> = OnceLock::new();
    let p = *REAL.get_or_init(|| unsafe {
        libc::dlsym(libc::RTLD_NEXT, b"getenv\0".as_ptr() as *const c_char) as usize
    });
    if p == 0 {
        None
    } else {
        // SAFETY: the address of libc's getenv
        Some(unsafe { std::mem::transmute::<usize, GetenvFn>(p) })
    }
}

pub fn set_plan(seed: u64) {
    PLAN.store(seed, Ordering::Relaxed);
}

pub fn take_counts() -> (u64, u64, Vec<String>) {
    let k = std::mem::take(&mut *keys().lock().unwrap_or_else(|e| e.into_inner()));
    (
        READS.swap(0, Ordering::Relaxed),
        PERTURBED.swap(0, Ordering::Relaxed),
        k,
    )
}

/// # Safety
/// Same contract as libc's `getenv`.
#[no_mangle]
pub unsafe extern "C" fn getenv(name: *const c_char) -> *mut c_char {
    let real = || match real_getenv() {
        Some(f) => f(name),
        None => std::ptr::null_mut(),
    };
    if name.is_null() || !crate::hook::in_call_fast() || !crate::clock::is_sim_thread() {
        return real();
    }
    // a library call is consulting the environment
    READS.fetch_add(1, Ordering::Relaxed);
    let key = CStr::from_ptr(name).to_bytes();
    if let Ok(mut k) = keys().try_lock() {
        let s = String::from_utf8_lossy(key).to_string();
        if k.len() < 16 && !k.contains(&s) {
            k.push(s);
        }
    }
    let plan = PLAN.load(Ordering::Relaxed);
    if plan == 0 {
        return real();
    }
    PERTURBED.fetch_add(1, Ordering::Relaxed);
    let choice = (mix(plan, Fnv::of(key)) % VALUES.len() as u64) as usize;
    if choice == 0 {
        std::ptr::null_mut()
    } else {
        VALUES[choice].as_ptr() as *mut c_char
    }
}

/// Self-test: does std's `env::var` reach this seam, and does it answer from the plan only
/// inside a guarded call on a simulated thread?
pub fn selftest() -> bool {
    let key = "SIM_ENVSEAM_SELFTEST_KEY_3";
    crate::clock::set_sim_thread(true);
    let before = READS.load(Ordering::Relaxed);
    // find a plan under which this key gets a non-empty value
    let mut inside = None;
    for plan in 1..64u64 {
        set_plan(plan);
        crate::hook::begin_call(0);
        inside = std::env::var(key).ok();
        crate::hook::end_call();
        if inside.is_some() {
            break;
        }
    }
    set_plan(0);
    crate::clock::set_sim_thread(false);
    let outside = std::env::var(key).ok();
    let reads = READS.load(Ordering::Relaxed) - before;
    // do not let the self-test show up in a run's counters
    READS.store(before, Ordering::Relaxed);
    PERTURBED.store(0, Ordering::Relaxed);
    if let Ok(mut k) = keys().lock() {
        k.retain(|x| x != key);
    }
    inside.is_some() && outside.is_none() && reads >= 1
}

// ---------------------------------------------------------------------------------------
// Machine seam (part of F12): the number of CPUs. `std::thread::available_parallelism`
// (and the `num_cpus` crate) end in `sched_getaffinity` / `sysconf(_SC_NPROCESSORS_*)`.
// A change that sizes chunks, shards or helper threads by it is fine as long as results do
// not depend on it; if they do, the same call gives another answer on another machine. The
// reference child sees the real machine; inside a guarded call on a simulated thread, in
// runs with a perturbation plan, the library sees 1, 2, 3, 5 … CPUs (never more than there
// are, so a library that pins or spawns that many threads is not misled into oversubscribing).

static CPU_READS: AtomicU64 = AtomicU64::new(0);

type AffinityFn = unsafe extern "C" fn(libc::pid_t, libc::size_t, *mut libc::cpu_set_t) -> libc::c_int;
type SysconfFn = unsafe extern "C" fn(libc::c_int) -> libc::c_long;

fn real_sym(name: &'static [u8], slot: &'static OnceLock<usize>) -> usize {
    *slot.get_or_init(|| unsafe { libc::dlsym(libc::RTLD_NEXT, name.as_ptr() as *const c_char) as usize })
}

const CPU_CHOICES: &[u64] = &[1, 2, 3, 5, 7, 12];

fn pretended_cpus(plan: u64, real: u64) -> u64 {
    let c = CPU_CHOICES[(mix(plan, 0xC9) % CPU_CHOICES.len() as u64) as usize];
    c.min(real.max(1))
}

pub fn take_cpu_reads() -> u64 {
    CPU_READS.swap(0, Ordering::Relaxed)
}

/// # Safety
/// Same contract as libc's `sched_getaffinity`.
#[no_mangle]
pub unsafe extern "C" fn sched_getaffinity(pid: libc::pid_t, size: libc::size_t, set: *mut libc::cpu_set_t) -> libc::c_int {
    static REAL: OnceLock<usize> = OnceLock::new();
    let p = real_sym(b"sched_getaffinity\0", &REAL);
    if p == 0 {
        return -1;
    }
    let f = std::mem::transmute::<usize, AffinityFn>(p);
    let rc = f(pid, size, set);
    if rc != 0 || set.is_null() || !crate::hook::in_call_fast() || !crate::clock::is_sim_thread() {
        return rc;
    }
    CPU_READS.fetch_add(1, Ordering::Relaxed);
    let plan = PLAN.load(Ordering::Relaxed);
    if plan == 0 {
        return rc;
    }
    // keep only the first k CPUs of the real mask
    let bytes = std::slice::from_raw_parts_mut(set as *mut u8, size);
    let real: u64 = bytes.iter().map(|b| b.count_ones() as u64).sum();
    let mut keep = pretended_cpus(plan, real);
    for b in bytes.iter_mut() {
        let mut nb = 0u8;
        for bit in 0..8 {
            if *b & (1 << bit) != 0 && keep > 0 {
                nb |= 1 << bit;
                keep -= 1;
            }
        }
        *b = nb;
    }
    rc
}

/// # Safety
/// Same contract as libc's `sysconf`.
#[no_mangle]
pub unsafe extern "C" fn sysconf(name: libc::c_int) -> libc::c_long {
    static REAL: OnceLock<usize> = OnceLock::new();
    let p = real_sym(b"sysconf\0", &REAL);
    if p == 0 {
        return -1;
    }
    let f = std::mem::transmute::<usize, SysconfFn>(p);
    let v = f(name);
    if (name == libc::_SC_NPROCESSORS_ONLN || name == libc::_SC_NPROCESSORS_CONF)
        && v > 0
        && crate::hook::in_call_fast()
        && crate::clock::is_sim_thread()
    {
        CPU_READS.fetch_add(1, Ordering::Relaxed);
        let plan = PLAN.load(Ordering::Relaxed);
        if plan != 0 {
            return pretended_cpus(plan, v as u64) as libc::c_long;
        }
    }
    v
}

/// Self-test: does `std::thread::available_parallelism` reach this seam?
pub fn selftest_cpus() -> bool {
    let outside = std::thread::available_parallelism().map_or(0, |n| n.get());
    crate::clock::set_sim_thread(true);
    let before = CPU_READS.load(Ordering::Relaxed);
    let mut differs = false;
    for plan in 1..64u64 {
        set_plan(plan);
        crate::hook::begin_call(0);
        let inside = std::thread::available_parallelism().map_or(0, |n| n.get());
        crate::hook::end_call();
        if inside != outside && inside >= 1 {
            differs = true;
            break;
        }
    }
    set_plan(0);
    crate::clock::set_sim_thread(false);
    let reads = CPU_READS.load(Ordering::Relaxed) - before;
    CPU_READS.store(before, Ordering::Relaxed);
    PERTURBED.store(0, Ordering::Relaxed);
    // on a one-CPU machine nothing can differ; the seam was still reached
    reads >= 1 && (differs || outside <= 1)
}
