//! F11 seam: the clock. regexml reads no clock today, but a change may (a wall-clock budget
//! against catastrophic backtracking, an expiring cache). std's `Instant::now` /
//! `SystemTime::now` end in libc's `clock_gettime`; this executable defines that symbol
//! itself (the static linker binds std's reference to it), asks the kernel for the real
//! time and, on simulated caller threads only, adds an offset the simulator owns. Harness
//! threads (driver, feeders, timeouts) always see real time.
//!
//! The offset only grows (jumps are injected at chosen hook steps inside calls and between
//! operations), so simulated time is monotonic.

use std::cell::Cell;
use std::sync::atomic::{AtomicI64, AtomicU64, Ordering};

static OFFSET_NS: AtomicI64 = AtomicI64::new(0);
static JUMPS: AtomicU64 = AtomicU64::new(0);

thread_local! {
    static SIM_THREAD: Cell<bool> = const { Cell::new(false) };
}

/// Mark the calling OS thread as a simulated caller thread (sees simulated time).
pub fn set_sim_thread(on: bool) {
    SIM_THREAD.with(|s| s.set(on));
}

pub fn is_sim_thread() -> bool {
    SIM_THREAD.try_with(|s| s.get()).unwrap_or(false)
}

/// Advance simulated time by `ms` milliseconds.
pub fn jump_ms(ms: u64) {
    OFFSET_NS.fetch_add((ms as i64).saturating_mul(1_000_000), Ordering::SeqCst);
    JUMPS.fetch_add(1, Ordering::Relaxed);
}

pub fn jumps() -> u64 {
    JUMPS.load(Ordering::Relaxed)
}

/// # Safety
/// Same contract as libc's `clock_gettime`.
#[no_mangle]
pub unsafe extern "C" fn clock_gettime(clk: libc::clockid_t, ts: *mut libc::timespec) -> libc::c_int {
    let r = libc::syscall(libc::SYS_clock_gettime, clk as libc::c_long, ts) as libc::c_int;
    if r != 0 || ts.is_null() {
        return r;
    }
    let sim = SIM_THREAD.try_with(|s| s.get()).unwrap_or(false);
    if sim {
        let off = OFFSET_NS.load(Ordering::SeqCst);
        if off != 0 {
            let t = &mut *ts;
            let total = t.tv_nsec as i64 + off % 1_000_000_000;
            t.tv_sec += (off / 1_000_000_000) as libc::time_t + (total / 1_000_000_000) as libc::time_t;
            t.tv_nsec = (total % 1_000_000_000) as libc::c_long;
        }
    }
    r
}

/// Self-test used by `sim clocktest` and at worker start: does std really go through the seam?
pub fn selftest() -> bool {
    let was = SIM_THREAD.with(|s| s.replace(true));
    let before = OFFSET_NS.load(Ordering::SeqCst);
    let t0 = std::time::Instant::now();
    let s0 = std::time::SystemTime::now();
    OFFSET_NS.fetch_add(5_000_000_000, Ordering::SeqCst);
    let di = t0.elapsed();
    let ds = s0.elapsed().unwrap_or_default();
    // harness threads must not see it
    let other = std::thread::spawn(move || {
        let t = std::time::Instant::now();
        t.elapsed()
    })
    .join()
    .unwrap_or_default();
    OFFSET_NS.store(before, Ordering::SeqCst);
    SIM_THREAD.with(|s| s.set(was));
    di.as_secs() >= 5 && ds.as_secs() >= 5 && other.as_secs() < 1
}

// ---- yielding and sleeping inside the library ----
//
// A spin / back-off loop in the library (`thread::yield_now`, `thread::sleep`) waits for
// another thread — which, under the token scheduler, is parked. std ends in libc's
// `sched_yield` / `nanosleep` / `clock_nanosleep`; this executable defines them: on a
// simulated caller thread inside a guarded call a yield becomes a scheduling point and a
// sleep advances the simulated clock instead of waiting (then is a scheduling point too).
// Everywhere else they forward to the kernel.

/// # Safety
/// Same contract as libc's `sched_yield`.
#[no_mangle]
pub unsafe extern "C" fn sched_yield() -> libc::c_int {
    if is_sim_thread() && crate::hook::in_call_fast() && crate::hook::on_yield() {
        return 0;
    }
    // nobody to switch to (or not a simulated call): really yield
    libc::syscall(libc::SYS_sched_yield) as libc::c_int
}

unsafe fn sim_sleep(req: *const libc::timespec) -> bool {
    if req.is_null() || !is_sim_thread() || !crate::hook::in_call_fast() {
        return false;
    }
    let r = &*req;
    let ms = (r.tv_sec as u64)
        .saturating_mul(1000)
        .saturating_add((r.tv_nsec as u64) / 1_000_000);
    OFFSET_NS.fetch_add(
        (r.tv_sec as i64)
            .saturating_mul(1_000_000_000)
            .saturating_add(r.tv_nsec as i64),
        Ordering::SeqCst,
    );
    let _ = ms;
    let _ = crate::hook::on_yield();
    true
}

/// # Safety
/// Same contract as libc's `nanosleep`.
#[no_mangle]
pub unsafe extern "C" fn nanosleep(req: *const libc::timespec, rem: *mut libc::timespec) -> libc::c_int {
    if sim_sleep(req) {
        if !rem.is_null() {
            (*rem).tv_sec = 0;
            (*rem).tv_nsec = 0;
        }
        return 0;
    }
    libc::syscall(libc::SYS_nanosleep, req, rem) as libc::c_int
}

/// # Safety
/// Same contract as libc's `clock_nanosleep` (returns the error number, not -1).
#[no_mangle]
pub unsafe extern "C" fn clock_nanosleep(
    clk: libc::clockid_t,
    flags: libc::c_int,
    req: *const libc::timespec,
    rem: *mut libc::timespec,
) -> libc::c_int {
    if flags == 0 && sim_sleep(req) {
        if !rem.is_null() {
            (*rem).tv_sec = 0;
            (*rem).tv_nsec = 0;
        }
        return 0;
    }
    let r = libc::syscall(libc::SYS_clock_nanosleep, clk as libc::c_long, flags as libc::c_long, req, rem);
    if r == 0 {
        0
    } else {
        *libc::__errno_location()
    }
}

// ---- timed waits ----
//
// std's timed waits (`Condvar::wait_timeout`, `recv_timeout`, `park_timeout`) compute an
// ABSOLUTE deadline from `clock_gettime` and hand it to the kernel with
// `syscall(SYS_futex, .., FUTEX_WAIT_BITSET, ..)`. On a simulated thread the deadline contains
// the simulated offset, so the kernel would wait that much longer (up to an hour). libc's
// `syscall` is therefore interposed as well: for exactly that futex operation on a simulated
// thread the offset is taken out of the deadline again; everything else passes through.

type SysFn = unsafe extern "C" fn(
    libc::c_long,
    libc::c_long,
    libc::c_long,
    libc::c_long,
    libc::c_long,
    libc::c_long,
    libc::c_long,
) -> libc::c_long;

static REAL_SYSCALL: std::sync::atomic::AtomicUsize = std::sync::atomic::AtomicUsize::new(0);

unsafe fn real_syscall() -> SysFn {
    let mut p = REAL_SYSCALL.load(Ordering::Relaxed);
    if p == 0 {
        p = libc::dlsym(libc::RTLD_NEXT, b"syscall\0".as_ptr() as *const libc::c_char) as usize;
        REAL_SYSCALL.store(p, Ordering::Relaxed);
    }
    std::mem::transmute::<usize, SysFn>(p)
}

/// # Safety
/// Same contract as libc's variadic `syscall` (on x86_64 the variadic and the fixed
/// six-argument calling sequences coincide for integer arguments).
#[no_mangle]
pub unsafe extern "C" fn syscall(
    num: libc::c_long,
    a1: libc::c_long,
    a2: libc::c_long,
    a3: libc::c_long,
    a4: libc::c_long,
    a5: libc::c_long,
    a6: libc::c_long,
) -> libc::c_long {
    let real = real_syscall();
    const FUTEX_WAIT_BITSET: libc::c_long = 9;
    const FUTEX_CMD_MASK: libc::c_long = !(128 | 256);
    if num == libc::SYS_futex && a4 != 0 && (a2 & FUTEX_CMD_MASK) == FUTEX_WAIT_BITSET && is_sim_thread() {
        let off = OFFSET_NS.load(Ordering::SeqCst);
        if off > 0 {
            let mut ts = *(a4 as *const libc::timespec);
            let total = (ts.tv_sec as i128) * 1_000_000_000 + ts.tv_nsec as i128 - off as i128;
            let total = total.max(0);
            ts.tv_sec = (total / 1_000_000_000) as libc::time_t;
            ts.tv_nsec = (total % 1_000_000_000) as libc::c_long;
            return real(num, a1, a2, a3, &ts as *const libc::timespec as libc::c_long, a5, a6);
        }
    }
    real(num, a1, a2, a3, a4, a5, a6)
}

/// Self-test: a 30 ms timed wait on a simulated thread with a one-hour offset returns in time.
pub fn selftest_timed_wait() -> bool {
    let h = std::thread::spawn(|| {
        set_sim_thread(true);
        let before = OFFSET_NS.load(Ordering::SeqCst);
        OFFSET_NS.fetch_add(3_600_000_000_000, Ordering::SeqCst);
        let pair = (std::sync::Mutex::new(false), std::sync::Condvar::new());
        let real0 = {
            let mut ts = libc::timespec { tv_sec: 0, tv_nsec: 0 };
            unsafe { real_syscall()(libc::SYS_clock_gettime, libc::CLOCK_MONOTONIC as libc::c_long, &mut ts as *mut _ as libc::c_long, 0, 0, 0, 0) };
            ts.tv_sec as i128 * 1_000_000_000 + ts.tv_nsec as i128
        };
        let g = pair.0.lock().unwrap();
        let (_g, to) = pair
            .1
            .wait_timeout(g, std::time::Duration::from_millis(30))
            .unwrap();
        let real1 = {
            let mut ts = libc::timespec { tv_sec: 0, tv_nsec: 0 };
            unsafe { real_syscall()(libc::SYS_clock_gettime, libc::CLOCK_MONOTONIC as libc::c_long, &mut ts as *mut _ as libc::c_long, 0, 0, 0, 0) };
            ts.tv_sec as i128 * 1_000_000_000 + ts.tv_nsec as i128
        };
        OFFSET_NS.store(before, Ordering::SeqCst);
        set_sim_thread(false);
        let waited_ms = (real1 - real0) / 1_000_000;
        to.timed_out() && (20..2000).contains(&waited_ms)
    });
    h.join().unwrap_or(false)
}
