//! F11 seam: the clock. regexml reads no clock today, but a change may (a wall-clock budget
//! against catastrophic backtracking, an expiring cache). std's `Instant::now` /
//! `SystemTime::now` end in libc's `clock_gettime`; this executable defines that symbol
//! itself (the static linker binds std's reference to it), asks the kernel for the real
//! time and, on simulated caller threads only, adds an offset the simulator owns. Harness
//! threads (driver, feeders, timeouts) always see real time.
//!
//! The offset only grows (jumps are injected at chosen hook steps inside calls and between
//! operations), so simulated time is monotonic.

use std::cell::Cell;
use std::sync::atomic::{AtomicI64, AtomicU64, Ordering};

static OFFSET_NS: AtomicI64 = AtomicI64::new(0);
static JUMPS: AtomicU64 = AtomicU64::new(0);

thread_local! {
    static SIM_THREAD: Cell<bool> = const { Cell::new(false) };
}

/// Mark the calling OS thread as a simulated caller thread (sees simulated time).
pub fn set_sim_thread(on: bool) {
    SIM_THREAD.with(|s| s.set(on));
}

pub fn is_sim_thread() -> bool {
    SIM_THREAD.try_with(|s| s.get()).unwrap_or(false)
}

/// Advance simulated time by `ms` milliseconds.
pub fn jump_ms(ms: u64) {
    OFFSET_NS.fetch_add((ms as i64).saturating_mul(1_000_000), Ordering::SeqCst);
    JUMPS.fetch_add(1, Ordering::Relaxed);
}

pub fn jumps() -> u64 {
    JUMPS.load(Ordering::Relaxed)
}

/// # Safety
/// Same contract as libc's `clock_gettime`.
#[no_mangle]
pub unsafe extern "C" fn clock_gettime(clk: libc::clockid_t, ts: *mut libc::timespec) -> libc::c_int {
    let r = libc::syscall(libc::SYS_clock_gettime, clk as libc::c_long, ts) as libc::c_int;
    if r != 0 || ts.is_null() {
        return r;
    }
    let sim = SIM_THREAD.try_with(|s| s.get()).unwrap_or(false);
    if sim {
        let off = OFFSET_NS.load(Ordering::SeqCst);
        if off != 0 {
            let t = &mut *ts;
            let total = t.tv_nsec as i64 + off % 1_000_000_000;
            t.tv_sec += (off / 1_000_000_000) as libc::time_t + (total / 1_000_000_000) as libc::time_t;
            t.tv_nsec = (total % 1_000_000_000) as libc::c_long;
        }
    }
    r
}

/// Self-test used by `sim clocktest` and at worker start: does std really go through the seam?
pub fn selftest() -> bool {
    let was = SIM_THREAD.with(|s| s.replace(true));
    let before = OFFSET_NS.load(Ordering::SeqCst);
    let t0 = std::time::Instant::now();
    let s0 = std::time::SystemTime::now();
    OFFSET_NS.fetch_add(5_000_000_000, Ordering::SeqCst);
    let di = t0.elapsed();
    let ds = s0.elapsed().unwrap_or_default();
    // harness threads must not see it
    let other = std::thread::spawn(move || {
        let t = std::time::Instant::now();
        t.elapsed()
    })
    .join()
    .unwrap_or_default();
    OFFSET_NS.store(before, Ordering::SeqCst);
    SIM_THREAD.with(|s| s.set(was));
    di.as_secs() >= 5 && ds.as_secs() >= 5 && other.as_secs() < 1
}
