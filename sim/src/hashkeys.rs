//! F6 seam: the per-map part of ahash's key material comes from a stream the simulator
//! owns (`ahash::random_state::set_random_source`, an existing seam of the dependency).
//! The per-process part is pinned by building with `--cfg fuzzing` (ahash's own switch).

use crate::rng::mix;
use std::sync::atomic::{AtomicU64, Ordering};

static STREAM: AtomicU64 = AtomicU64::new(0x1234_5678_9abc_def0);
static COUNTER: AtomicU64 = AtomicU64::new(0);

struct Src;

impl ahash::random_state::RandomSource for Src {
    fn gen_hasher_seed(&self) -> usize {
        let c = COUNTER.fetch_add(1, Ordering::Relaxed);
        mix(STREAM.load(Ordering::Relaxed), c) as usize
    }
}

pub fn install() {
    let _ = ahash::random_state::set_random_source(Src);
}

/// Start a new key stream (per run / per reference child).
pub fn reseed(stream: u64) {
    STREAM.store(stream, Ordering::Relaxed);
    COUNTER.store(0, Ordering::Relaxed);
}

/// How many hash maps drew a key since the last reseed.
pub fn draws() -> u64 {
    COUNTER.load(Ordering::Relaxed)
}
