//! Executing one API call of the real library and rendering its outcome canonically.
//! Shared by simulated caller threads and by the pristine reference child, so both sides
//! render and guard calls with exactly the same code.

use crate::hook;
use crate::model::{Key, Method, RefResult, Request, POLL_CAP};
use regexml::Regex;
use std::panic::{catch_unwind, AssertUnwindSafe};

/// Why a guarded call did not return normally.
#[derive(Debug, Clone, PartialEq, Eq)]
pub enum Abnormal {
    /// Injected caller crash (F2). Never compared.
    Crashed,
    /// Step budget exhausted.
    Diverged,
    /// The library itself panicked.
    Panicked(String),
}

impl Abnormal {
    pub fn render(&self) -> String {
        match self {
            Abnormal::Crashed => "Crashed(injected)".to_string(),
            Abnormal::Diverged => "Diverged".to_string(),
            Abnormal::Panicked(m) => format!("Panicked({:?})", m),
        }
    }
}

/// Run `f` as one guarded call: step counter reset, budget armed, optional crash point.
/// Returns the value or the abnormal outcome, plus the number of hook steps taken.
pub fn guarded<T>(crash_at: u64, f: impl FnOnce() -> T) -> (Result<T, Abnormal>, u64) {
    hook::begin_call(crash_at);
    let r = catch_unwind(AssertUnwindSafe(f));
    let steps = hook::end_call();
    let r = match r {
        Ok(v) => Ok(v),
        Err(payload) => Err(match payload.downcast_ref::<hook::SimUnwind>() {
            Some(hook::SimUnwind::Crash) => Abnormal::Crashed,
            Some(hook::SimUnwind::Diverged) => Abnormal::Diverged,
            None => {
                let msg = if let Some(s) = payload.downcast_ref::<&str>() {
                    s.to_string()
                } else if let Some(s) = payload.downcast_ref::<String>() {
                    s.clone()
                } else {
                    "<non-string panic payload>".to_string()
                };
                Abnormal::Panicked(msg)
            }
        }),
    };
    (r, steps)
}

pub fn render_err(e: &regexml::Error) -> String {
    format!("Err({:?})", e)
}

pub fn compile(key: &Key) -> Result<Regex, regexml::Error> {
    if key.xsd {
        Regex::xsd(&key.p, &key.f)
    } else {
        Regex::xpath(&key.p, &key.f)
    }
}

pub fn render_compile(r: &Result<Regex, regexml::Error>) -> String {
    match r {
        Ok(_) => "Ok(compiled)".to_string(),
        Err(e) => render_err(e),
    }
}

pub fn is_match(re: &Regex, input: &str) -> String {
    format!("{}", re.is_match(input))
}

pub fn replace_all(re: &Regex, input: &str, repl: &str) -> String {
    match re.replace_all(input, repl) {
        Ok(s) => format!("Ok({:?})", s),
        Err(e) => render_err(&e),
    }
}

pub type StrIter<'a> = Box<dyn Iterator<Item = String> + 'a>;

/// Open a tokenize / analyze iterator whose items are already rendered.
pub fn open<'a>(re: &'a Regex, method: Method, input: &str) -> Result<StrIter<'a>, String> {
    match method {
        Method::Tokenize => match re.tokenize(input) {
            Ok(it) => Ok(Box::new(it.map(|s| format!("{:?}", s)))),
            Err(e) => Err(render_err(&e)),
        },
        Method::Analyze => match re.analyze(input) {
            Ok(it) => Ok(Box::new(it.map(|e| format!("{:?}", e)))),
            Err(e) => Err(render_err(&e)),
        },
        _ => unreachable!("open() is for iterator methods"),
    }
}

pub fn render_poll(p: &Option<String>) -> String {
    match p {
        Some(s) => format!("Some({})", s),
        None => "None".to_string(),
    }
}

/// The whole reference computation for one request, on a fresh object. Runs in the
/// pristine child process.
pub fn reference(req: &Request) -> RefResult {
    let mut res = RefResult {
        open: String::new(),
        steps: 0,
        polls: Vec::new(),
        poll_steps: Vec::new(),
        unstable: false,
            budget_sensitive: false,
    };
    let (compiled, csteps) = guarded(0, || compile(&req.key));
    let compiled = match compiled {
        Ok(c) => c,
        Err(a) => {
            // compile itself panicked / diverged
            res.open = match req.method {
                Method::Compile => a.render(),
                _ => format!("NoObject({})", a.render()),
            };
            res.steps = csteps;
            return res;
        }
    };
    if req.method == Method::Compile {
        res.open = render_compile(&compiled);
        res.steps = csteps;
        return res;
    }
    let re = match compiled {
        Ok(re) => re,
        Err(e) => {
            res.open = format!("NoObject({})", render_err(&e));
            return res;
        }
    };
    match req.method {
        Method::IsMatch => {
            let (r, steps) = guarded(0, || is_match(&re, &req.input));
            res.open = r.unwrap_or_else(|a| a.render());
            res.steps = steps;
        }
        Method::ReplaceAll => {
            let (r, steps) = guarded(0, || replace_all(&re, &req.input, &req.repl));
            res.open = r.unwrap_or_else(|a| a.render());
            res.steps = steps;
        }
        Method::Tokenize | Method::Analyze => {
            let (r, steps) = guarded(0, || open(&re, req.method, &req.input));
            res.steps = steps;
            match r {
                Err(a) => res.open = a.render(),
                Ok(Err(e)) => res.open = e,
                Ok(Ok(mut it)) => {
                    res.open = "Ok(iter)".to_string();
                    for _ in 0..POLL_CAP {
                        let (p, ps) = guarded(0, || it.next());
                        res.poll_steps.push(ps);
                        match p {
                            Ok(p) => res.polls.push(render_poll(&p)),
                            Err(a) => {
                                res.polls.push(a.render());
                                break;
                            }
                        }
                    }
                }
            }
        }
        Method::Compile => unreachable!(),
    }
    res
}
