//! Token-passing scheduler for real `std::thread`s. Exactly one simulated thread runs
//! between decisions; every decision is a function of (policy, PRNG stream, decision
//! index, candidate set), and the chosen thread ids are recorded so a run can be
//! replayed from the explicit list.

use crate::hook::{self, CLOCK};
use crate::model::{Policy, RunSpec};
use crate::rng::{Fnv, Rng};
use std::fmt::Write as _;
use std::sync::atomic::{AtomicBool, AtomicI32, Ordering};
use std::sync::{Arc, Condvar, Mutex, MutexGuard};

#[derive(Clone, Copy, Debug, PartialEq, Eq)]
pub enum TState {
    Runnable,
    Finished,
    /// Sleeping inside the library on something the simulator does not own
    /// (e.g. a std Mutex a changed tree introduced). See DESIGN §3.4.
    ExtBlocked,
}

#[derive(Clone, Copy, Debug, PartialEq, Eq)]
pub enum Point {
    Start,
    /// The library itself gave up the CPU (`sched_yield`, `nanosleep`): always a switch to
    /// another runnable thread if there is one.
    Yield,
    Site(u32),
    OpBoundary,
    Exit,
    ExtBlock,
}

pub struct TCell {
    pub must_park: AtomicBool,
    pub tid: AtomicI32,
    pub in_io: AtomicBool,
    /// the thread is parked in the harness waiting for the token (set and read under the
    /// scheduler mutex): a token holder that has not woken up yet is slow, not blocked
    pub waiting: AtomicBool,
}

pub struct Shared {
    pub m: Mutex<Sched>,
    pub cvs: Vec<Condvar>,
    pub main_cv: Condvar,
    pub tcells: Vec<TCell>,
}

pub struct SimThread {
    pub idx: usize,
    pub edge_seed: u64,
    pub shared: Arc<Shared>,
}

enum PolState {
    Seq,
    Random { p: u64 },
    Pct { prio: Vec<i64>, change: Vec<usize>, next_low: i64 },
    OpGranular { p: u64 },
    Stall { victim: usize, at: u32, p: u64, hits: u32, done: bool, release: u32, seen: u32 },
}

pub struct Sched {
    pub n: usize,
    pub current: Option<usize>,
    pub tstate: Vec<TState>,
    pub held: Vec<bool>,
    pub setup_left: usize,
    pub in_op: Vec<bool>,
    pub active_obj: Vec<Option<u32>>,
    pol: PolState,
    rng: Rng,
    replay: Option<Vec<u8>>,
    replay_pos: usize,
    pub replay_fallbacks: u64,
    pub decisions: Vec<u8>,
    pub stalled: Option<usize>,
    pub stalls: u64,
    pub keep_log: bool,
    pub log: String,
    pub log_hash: Fnv,
    pub trace: Option<Vec<(u8, u64)>>,
    pub sched_hash: Fnv,
    pub ileave_hash: Fnv,
    pub switches: u64,
    pub intra: u64,
    pub ext_blocked: u64,
    pub nondet_window: bool,
    pub deadlock: bool,
    pub done: bool,
    pub finished: usize,
    /// Fresh-thread runs: an exiting caller thread hands the token to the driver, which
    /// joins the OS thread (so its thread-local destructors have run) before anybody else
    /// proceeds (F10, deterministic thread exit).
    pub exit_via_driver: bool,
    pub pending_exit: Option<usize>,
    /// `late[j] = Some(i)`: thread j does not start before thread i has exited.
    pub late: Vec<Option<usize>>,
    pub thread_exits_joined: u64,
    pub late_starts: u64,
    pub yields: u64,
}

pub fn lock(m: &Mutex<Sched>) -> MutexGuard<'_, Sched> {
    m.lock().unwrap_or_else(|e| e.into_inner())
}

impl Sched {
    pub fn new(spec: &RunSpec, keep_log: bool) -> Sched {
        let n = spec.threads();
        let mut rng = Rng::stream(spec.sched_seed, 0x5C4ED);
        let pol = match &spec.policy {
            Policy::Seq => PolState::Seq,
            Policy::Random { p } => PolState::Random { p: *p as u64 },
            Policy::OpGranular { p } => PolState::OpGranular { p: *p as u64 },
            Policy::Pct { d, horizon } => {
                // random distinct priorities d+1 ..= d+n, change points in 1..=horizon
                let mut prio: Vec<i64> = (0..n as i64).map(|i| *d as i64 + 1 + i).collect();
                for i in (1..n).rev() {
                    let j = rng.below(i + 1);
                    prio.swap(i, j);
                }
                let mut change: Vec<usize> = (0..*d)
                    .map(|_| 1 + rng.below((*horizon).max(1) as usize))
                    .collect();
                change.sort_unstable();
                PolState::Pct {
                    prio,
                    change,
                    next_low: *d as i64,
                }
            }
            Policy::Stall {
                victim,
                at,
                p,
                release,
            } => PolState::Stall {
                victim: *victim,
                at: *at,
                p: *p as u64,
                hits: 0,
                done: false,
                release: *release,
                seen: 0,
            },
        };
        let mut held = vec![false; n];
        if spec.setup_ops > 0 {
            for h in held.iter_mut().skip(1) {
                *h = true;
            }
        }
        Sched {
            n,
            current: None,
            tstate: vec![TState::Runnable; n],
            held,
            setup_left: spec.setup_ops,
            in_op: vec![false; n],
            active_obj: vec![None; n],
            pol,
            rng,
            replay: spec.decisions.clone(),
            replay_pos: 0,
            replay_fallbacks: 0,
            decisions: Vec::new(),
            stalled: None,
            stalls: 0,
            keep_log,
            log: String::new(),
            log_hash: Fnv::default(),
            trace: None,
            sched_hash: Fnv::default(),
            ileave_hash: Fnv::default(),
            switches: 0,
            intra: 0,
            ext_blocked: 0,
            nondet_window: false,
            deadlock: false,
            done: false,
            finished: 0,
            exit_via_driver: false,
            pending_exit: None,
            late: spec.late.clone().unwrap_or_default(),
            thread_exits_joined: 0,
            late_starts: 0,
            yields: 0,
        }
    }

    pub fn logline(&mut self, line: &str) {
        self.log_hash.bytes(line.as_bytes());
        self.log_hash.bytes(b"\n");
        if let Some(tr) = &mut self.trace {
            let kind = if line.contains(" return ") {
                b'r'
            } else if line.contains(" sched ") {
                b's'
            } else if line.contains(" invoke ") {
                b'i'
            } else {
                b'o'
            };
            tr.push((kind, self.log_hash.0));
        }
        if self.keep_log {
            self.log.push_str(line);
            self.log.push('\n');
        }
    }

    fn candidates(&self) -> Vec<usize> {
        let mut c: Vec<usize> = (0..self.n)
            .filter(|&t| self.tstate[t] == TState::Runnable && !self.held[t])
            .filter(|&t| match self.late.get(t).copied().flatten() {
                Some(i) => i >= self.n || i == t || self.tstate[i] == TState::Finished,
                None => true,
            })
            .collect();
        if let Some(s) = self.stalled {
            if c.len() > 1 {
                c.retain(|&t| t != s);
            }
        }
        c
    }

    /// Thread 0 finished one of its set-up operations.
    pub fn setup_progress(&mut self) {
        if self.setup_left > 0 {
            self.setup_left -= 1;
            if self.setup_left == 0 {
                for h in self.held.iter_mut() {
                    *h = false;
                }
            }
        }
    }

    pub fn release_setup(&mut self) {
        self.setup_left = 0;
        for h in self.held.iter_mut() {
            *h = false;
        }
    }

    /// Decide who runs next. `me` is the thread asking (None when called by the driver).
    pub fn decide(&mut self, me: Option<usize>, point: Point) -> Option<usize> {
        // stall trigger (F9): freeze the victim inside an operation
        if let (PolState::Stall { victim, at, hits, done, .. }, Some(m), Point::Site(_)) =
            (&mut self.pol, me, point)
        {
            if m == *victim && !*done && self.in_op[m] {
                *hits += 1;
                if *hits >= *at {
                    *done = true;
                    if (0..self.n).any(|t| t != m && self.tstate[t] == TState::Runnable) {
                        self.stalled = Some(m);
                        self.stalls += 1;
                    }
                }
            }
        }
        // the library is explicitly waiting for somebody (yield / sleep inside a call): a
        // thread frozen by the stall policy may be the one it waits for
        if point == Point::Yield && self.stalled.is_some() && self.stalled != me {
            self.stalled = None;
        }
        // bounded stall: release the victim after `release` operation boundaries of others
        if let (PolState::Stall { release, seen, .. }, Some(st), Point::OpBoundary) =
            (&mut self.pol, self.stalled, point)
        {
            if *release > 0 && me != Some(st) {
                *seen += 1;
                if *seen >= *release {
                    self.stalled = None;
                }
            }
        }
        let cands = self.candidates();
        if cands.is_empty() {
            return None;
        }
        let me_ok = me.map_or(false, |m| cands.contains(&m));
        if cands.len() == 1 {
            return Some(cands[0]);
        }
        let idx = self.decisions.len();
        if point == Point::Yield && self.replay.is_none() {
            // the yielding thread does not stay: uniformly one of the others
            let others: Vec<usize> = cands.iter().copied().filter(|&c| Some(c) != me).collect();
            if !others.is_empty() {
                let choice = others[self.rng.below(others.len())];
                self.decisions.push(choice as u8);
                self.sched_hash.bytes(&[choice as u8]);
                return Some(choice);
            }
        }
        let choice = if let Some(list) = &self.replay {
            let c = list.get(self.replay_pos).map(|&c| c as usize);
            self.replay_pos += 1;
            match c {
                Some(c) if cands.contains(&c) => c,
                _ => {
                    self.replay_fallbacks += 1;
                    if me_ok {
                        me.unwrap()
                    } else {
                        cands[0]
                    }
                }
            }
        } else {
            match &mut self.pol {
                PolState::Seq => {
                    if me_ok {
                        me.unwrap()
                    } else {
                        cands[0]
                    }
                }
                PolState::Random { p } | PolState::Stall { p, .. } => {
                    let p = *p;
                    pick_random(&mut self.rng, &cands, me, me_ok, p)
                }
                PolState::OpGranular { p } => {
                    let p = *p;
                    if matches!(point, Point::Site(_)) && me_ok {
                        me.unwrap()
                    } else {
                        pick_random(&mut self.rng, &cands, me, me_ok, p)
                    }
                }
                PolState::Pct {
                    prio,
                    change,
                    next_low,
                } => {
                    if let Some(m) = me {
                        while let Some(&c) = change.first() {
                            if c <= idx + 1 {
                                change.remove(0);
                                prio[m] = *next_low;
                                *next_low -= 1;
                            } else {
                                break;
                            }
                        }
                    }
                    *cands.iter().max_by_key(|&&t| prio[t]).unwrap()
                }
            }
        };
        self.decisions.push(choice as u8);
        self.sched_hash.bytes(&[choice as u8]);
        Some(choice)
    }

    fn note_switch(&mut self, from: Option<usize>, to: usize, point: Point) {
        let t = CLOCK.fetch_add(1, Ordering::Relaxed);
        self.switches += 1;
        let site = match point {
            Point::Site(s) => s,
            Point::OpBoundary => 100,
            Point::Yield => 104,
            Point::Exit => 101,
            Point::Start => 102,
            Point::ExtBlock => 103,
        };
        let intra = from.map_or(false, |f| self.in_op[f]) && matches!(point, Point::Site(_));
        if intra {
            self.intra += 1;
        }
        self.ileave_hash
            .bytes(&[from.map_or(255, |f| f as u8), to as u8, site as u8]);
        let mut line = String::with_capacity(64);
        let _ = write!(
            line,
            "t={} sched {}->T{} at {:?} (decision {}){}",
            t,
            from.map_or("-".to_string(), |f| format!("T{}", f)),
            to,
            point,
            self.decisions.len(),
            if intra { " [intra-call preemption]" } else { "" }
        );
        self.logline(&line);
    }
}

fn pick_random(rng: &mut Rng, cands: &[usize], me: Option<usize>, me_ok: bool, p: u64) -> usize {
    if me_ok {
        let m = me.unwrap();
        if rng.chance(p, 1000) {
            let others: Vec<usize> = cands.iter().copied().filter(|&c| c != m).collect();
            others[rng.below(others.len())]
        } else {
            m
        }
    } else {
        cands[rng.below(cands.len())]
    }
}

impl SimThread {
    pub fn lock(&self) -> MutexGuard<'_, Sched> {
        lock(&self.shared.m)
    }

    /// Fast-path check used by the hook: has the driver asked this thread to park?
    #[inline]
    pub fn must_park(&self) -> bool {
        self.shared.tcells[self.idx].must_park.load(Ordering::Relaxed)
    }

    fn wait_token<'a>(&'a self, mut g: MutexGuard<'a, Sched>) -> MutexGuard<'a, Sched> {
        let cell = &self.shared.tcells[self.idx];
        cell.waiting.store(true, Ordering::Relaxed);
        while g.current != Some(self.idx) {
            g = self.shared.cvs[self.idx]
                .wait(g)
                .unwrap_or_else(|e| e.into_inner());
        }
        cell.waiting.store(false, Ordering::Relaxed);
        g
    }

    /// Block until this thread is given the token for the first time.
    pub fn start(&self) {
        let g = self.lock();
        let _g = self.wait_token(g);
    }

    fn hand_over<'a>(
        &'a self,
        mut g: MutexGuard<'a, Sched>,
        to: usize,
        point: Point,
    ) -> MutexGuard<'a, Sched> {
        g.note_switch(Some(self.idx), to, point);
        g.current = Some(to);
        self.shared.cvs[to].notify_one();
        self.wait_token(g)
    }

    /// A thread that was marked externally blocked got going again: park until chosen.
    fn repark<'a>(&'a self, mut g: MutexGuard<'a, Sched>) -> MutexGuard<'a, Sched> {
        if g.tstate[self.idx] == TState::ExtBlocked {
            g.tstate[self.idx] = TState::Runnable;
            self.shared.tcells[self.idx]
                .must_park
                .store(false, Ordering::Relaxed);
            if g.current.is_none() && !g.done {
                g.current = Some(self.idx);
            }
            g = self.wait_token(g);
        }
        g
    }

    /// Preemptible hook site (or a parked-thread check) reached inside the library.
    pub fn site(&self, site_id: u32, preemptible: bool) {
        let mut g = self.lock();
        g = self.repark(g);
        if !preemptible {
            return;
        }
        if let Some(next) = g.decide(Some(self.idx), Point::Site(site_id)) {
            if next != self.idx {
                let _g = self.hand_over(g, next, Point::Site(site_id));
            }
        }
    }

    /// The library called `sched_yield` / slept inside a call.
    /// Returns true if another thread was given the CPU.
    pub fn yielded(&self) -> bool {
        let mut g = self.lock();
        g = self.repark(g);
        g.yields += 1;
        // only a switch counts as progress: a thread that keeps yielding with nobody to
        // switch to must look stuck to the driver's watchdog
        let others = (0..g.n).any(|t| t != self.idx && g.tstate[t] == TState::Runnable && !g.held[t]);
        if !others {
            return false;
        }
        if let Some(next) = g.decide(Some(self.idx), Point::Yield) {
            if next != self.idx {
                CLOCK.fetch_add(1, Ordering::Relaxed);
                let _g = self.hand_over(g, next, Point::Yield);
                return true;
            }
        }
        false
    }

    /// Scheduling point between operations (and between polls of one operation).
    pub fn boundary(&self) {
        CLOCK.fetch_add(1, Ordering::Relaxed);
        let mut g = self.lock();
        g = self.repark(g);
        if let Some(next) = g.decide(Some(self.idx), Point::OpBoundary) {
            if next != self.idx {
                let _g = self.hand_over(g, next, Point::OpBoundary);
            }
        }
    }

    /// The thread's script is finished.
    pub fn exit(&self) {
        CLOCK.fetch_add(1, Ordering::Relaxed);
        let mut g = self.lock();
        g = self.repark(g);
        g.tstate[self.idx] = TState::Finished;
        g.finished += 1;
        if self.idx == 0 {
            g.release_setup();
        }
        if g.stalled == Some(self.idx) {
            g.stalled = None;
        }
        if g.exit_via_driver {
            // the driver joins this OS thread, then passes the token on
            g.pending_exit = Some(self.idx);
            self.shared.main_cv.notify_all();
            return;
        }
        after_exit(&self.shared, &mut g, self.idx);
    }

    pub fn with<R>(&self, f: impl FnOnce(&mut Sched) -> R) -> R {
        let mut g = self.lock();
        f(&mut g)
    }

    pub fn set_io(&self, on: bool) {
        self.shared.tcells[self.idx].in_io.store(on, Ordering::Relaxed);
    }
}

/// Token hand-over after thread `idx` has finished (called by the thread itself, or by the
/// driver once it has joined the OS thread).
pub fn after_exit(shared: &Arc<Shared>, g: &mut Sched, idx: usize) {
    match g.decide(Some(idx), Point::Exit) {
        Some(next) => {
            if g.late.get(next).copied().flatten() == Some(idx) {
                g.late_starts += 1;
            }
            g.note_switch(Some(idx), next, Point::Exit);
            g.current = Some(next);
            shared.cvs[next].notify_one();
        }
        None => {
            g.current = None;
            if g.finished == g.n {
                g.done = true;
            }
            shared.main_cv.notify_all();
        }
    }
}

/// Driver side: give the token to the first thread.
pub fn kick_off(shared: &Arc<Shared>) {
    let mut g = lock(&shared.m);
    if let Some(first) = g.decide(None, Point::Start) {
        g.note_switch(None, first, Point::Start);
        g.current = Some(first);
        shared.cvs[first].notify_one();
    } else {
        g.done = true;
    }
}

/// State letter of a task from /proc, without allocating: the driver must not touch the
/// heap while a run is in progress (its allocations would shift the addresses later handed
/// to the caller threads, and address-keyed hash maps in the library make addresses
/// visible to the dense build as basic-block edges).
fn task_state(tid: i32) -> Option<char> {
    let mut path = [0u8; 64];
    let prefix = b"/proc/self/task/";
    let mut n = 0;
    for &b in prefix {
        path[n] = b;
        n += 1;
    }
    let mut digits = [0u8; 12];
    let mut d = 0;
    let mut v = tid.max(0) as u32;
    if v == 0 {
        digits[0] = b'0';
        d = 1;
    }
    while v > 0 {
        digits[d] = b'0' + (v % 10) as u8;
        v /= 10;
        d += 1;
    }
    while d > 0 {
        d -= 1;
        path[n] = digits[d];
        n += 1;
    }
    for &b in b"/stat\0" {
        path[n] = b;
        n += 1;
    }
    let mut buf = [0u8; 512];
    // SAFETY: plain open/read/close on a NUL-terminated path and a stack buffer
    let got = unsafe {
        let fd = libc::open(path.as_ptr() as *const libc::c_char, libc::O_RDONLY | libc::O_CLOEXEC);
        if fd < 0 {
            return None;
        }
        let r = libc::read(fd, buf.as_mut_ptr() as *mut libc::c_void, buf.len());
        libc::close(fd);
        r
    };
    if got <= 0 {
        return None;
    }
    let s = &buf[..got as usize];
    let close = s.iter().rposition(|&b| b == b')')?;
    s[close + 1..]
        .iter()
        .find(|b| !b.is_ascii_whitespace())
        .map(|&b| b as char)
}

/// Driver side: wait until the run is over. Watches the token holder for blocking the
/// simulator does not own (DESIGN §3.4). Returns false if the wall-clock guard fired.
pub fn drive(
    shared: &Arc<Shared>,
    wall_limit: std::time::Duration,
    mut join_thread: impl FnMut(usize),
) -> bool {
    let t0 = std::time::Instant::now();
    let mut g = lock(&shared.m);
    let mut last_clock = CLOCK.load(Ordering::Relaxed);
    let mut stuck = 0u32;
    let mut spinning = 0u32;
    let mut idle_polls = 0u32;
    loop {
        if g.done {
            return true;
        }
        if let Some(i) = g.pending_exit.take() {
            // a caller thread of a fresh-thread run is exiting: wait until the OS thread is
            // gone (thread-local destructors included), then pass the token on
            drop(g);
            join_thread(i);
            g = lock(&shared.m);
            g.thread_exits_joined += 1;
            after_exit(shared, &mut g, i);
            last_clock = CLOCK.load(Ordering::Relaxed);
            continue;
        }
        let (g2, to) = shared
            .main_cv
            .wait_timeout(g, std::time::Duration::from_millis(5))
            .unwrap_or_else(|e| e.into_inner());
        g = g2;
        if g.done {
            return true;
        }
        if g.pending_exit.is_some() {
            continue;
        }
        if !to.timed_out() {
            continue;
        }
        if t0.elapsed() > wall_limit {
            return false;
        }
        let c = CLOCK.load(Ordering::Relaxed);
        if c != last_clock {
            last_clock = c;
            stuck = 0;
            spinning = 0;
            idle_polls = 0;
            continue;
        }
        match g.current {
            None => {
                // nobody holds the token: every live thread is externally blocked
                idle_polls += 1;
                if idle_polls > 400 {
                    g.deadlock = true;
                    g.done = true;
                    return true;
                }
            }
            Some(cur) => {
                let cell = &shared.tcells[cur];
                if cell.in_io.load(Ordering::Relaxed) || cell.waiting.load(Ordering::Relaxed) {
                    // waiting for the reference server, or handed the token but not yet
                    // woken up by the OS (a loaded machine): neither is the library blocking
                    stuck = 0;
                    spinning = 0;
                    continue;
                }
                let tid = cell.tid.load(Ordering::Relaxed);
                let st = if tid > 0 { task_state(tid) } else { None };
                if st == Some('S') || st == Some('D') {
                    stuck += 1;
                } else {
                    stuck = 0;
                }
                // a token holder that is runnable but has not reached a single hook site for
                // 60 ms is spinning on something another (parked) simulated thread holds — a
                // spin lock, a yield/sleep back-off loop: treat it like a blocked thread
                if st == Some('R') {
                    spinning += 1;
                } else {
                    spinning = 0;
                }
                let others = (0..g.n).any(|t| t != cur && g.tstate[t] == TState::Runnable);
                if stuck >= 4 || (spinning >= 12 && others) {
                    stuck = 0;
                    spinning = 0;
                    g.tstate[cur] = TState::ExtBlocked;
                    cell.must_park.store(true, Ordering::Relaxed);
                    g.ext_blocked += 1;
                    g.nondet_window = true;
                    let line = format!("t={} extblock T{}", c, cur);
                    g.logline(&line);
                    match g.decide(None, Point::ExtBlock) {
                        Some(next) => {
                            g.note_switch(Some(cur), next, Point::ExtBlock);
                            g.current = Some(next);
                            shared.cvs[next].notify_one();
                        }
                        None => {
                            g.current = None;
                        }
                    }
                }
            }
        }
    }
}

pub fn new_shared(spec: &RunSpec, keep_log: bool) -> (Arc<Shared>, Vec<Arc<SimThread>>) {
    let n = spec.threads();
    let shared = Arc::new(Shared {
        m: Mutex::new(Sched::new(spec, keep_log)),
        cvs: (0..n).map(|_| Condvar::new()).collect(),
        main_cv: Condvar::new(),
        tcells: (0..n)
            .map(|_| TCell {
                must_park: AtomicBool::new(false),
                tid: AtomicI32::new(0),
                in_io: AtomicBool::new(false),
                waiting: AtomicBool::new(false),
            })
            .collect(),
    });
    let threads = (0..n)
        .map(|idx| {
            Arc::new(SimThread {
                idx,
                edge_seed: spec.sched_seed,
                shared: shared.clone(),
            })
        })
        .collect();
    (shared, threads)
}

pub fn gettid() -> i32 {
    // SAFETY: plain syscall
    unsafe { libc::syscall(libc::SYS_gettid) as i32 }
}

#[allow(dead_code)]
pub fn unused() {
    let _ = hook::in_call();
}
