//! Own PRNG: splitmix64 for seeding / stream derivation and xoshiro256** for draws.
//! No dependency on the `rand` crate, so a seed means the same thing forever.

#[inline]
pub fn splitmix64(state: &mut u64) -> u64 {
    *state = state.wrapping_add(0x9E37_79B9_7F4A_7C15);
    let mut z = *state;
    z = (z ^ (z >> 30)).wrapping_mul(0xBF58_476D_1CE4_E5B9);
    z = (z ^ (z >> 27)).wrapping_mul(0x94D0_49BB_1331_11EB);
    z ^ (z >> 31)
}

/// Stateless mix of two words (used to derive independent sub-streams).
#[inline]
pub fn mix(a: u64, b: u64) -> u64 {
    let mut s = a ^ b.wrapping_mul(0xD6E8_FEB8_6659_FD93).rotate_left(23);
    splitmix64(&mut s)
}

#[derive(Clone, Debug)]
pub struct Rng {
    s: [u64; 4],
}

impl Rng {
    pub fn new(seed: u64) -> Self {
        let mut st = seed;
        let s = [
            splitmix64(&mut st),
            splitmix64(&mut st),
            splitmix64(&mut st),
            splitmix64(&mut st),
        ];
        Rng { s }
    }

    /// Independent sub-stream `n` of `seed`.
    pub fn stream(seed: u64, n: u64) -> Self {
        Rng::new(mix(seed, n))
    }

    #[inline]
    pub fn next_u64(&mut self) -> u64 {
        let result = self.s[1].wrapping_mul(5).rotate_left(7).wrapping_mul(9);
        let t = self.s[1] << 17;
        self.s[2] ^= self.s[0];
        self.s[3] ^= self.s[1];
        self.s[1] ^= self.s[2];
        self.s[0] ^= self.s[3];
        self.s[2] ^= t;
        self.s[3] = self.s[3].rotate_left(45);
        result
    }

    /// Uniform in 0..n (n > 0). Slight modulo bias is irrelevant here.
    #[inline]
    pub fn below(&mut self, n: usize) -> usize {
        debug_assert!(n > 0);
        (self.next_u64() % (n as u64)) as usize
    }

    /// Uniform in lo..=hi.
    #[inline]
    pub fn range(&mut self, lo: usize, hi: usize) -> usize {
        lo + self.below(hi - lo + 1)
    }

    /// True with probability num/den.
    #[inline]
    pub fn chance(&mut self, num: u64, den: u64) -> bool {
        self.next_u64() % den < num
    }

    #[inline]
    pub fn pick<'a, T>(&mut self, xs: &'a [T]) -> &'a T {
        &xs[self.below(xs.len())]
    }
}

/// FNV-1a 64 rolling hash, used for log / interleaving fingerprints.
#[derive(Clone, Copy, Debug)]
pub struct Fnv(pub u64);

impl Default for Fnv {
    fn default() -> Self {
        Fnv(0xcbf2_9ce4_8422_2325)
    }
}

impl Fnv {
    #[inline]
    pub fn bytes(&mut self, b: &[u8]) {
        for &x in b {
            self.0 ^= x as u64;
            self.0 = self.0.wrapping_mul(0x0000_0100_0000_01B3);
        }
    }
    #[inline]
    pub fn u64(&mut self, v: u64) {
        self.bytes(&v.to_le_bytes());
    }
    pub fn of(b: &[u8]) -> u64 {
        let mut f = Fnv::default();
        f.bytes(b);
        f.0
    }
}
