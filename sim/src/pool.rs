//! Process management for the controller: reference-server lanes and short-lived worker
//! processes fed with batches of jobs.

use crate::model::RunRecord;
use crate::worker::Job;
use std::io::{BufRead, BufReader, Write};
use std::path::PathBuf;
use std::process::{Child, Command, Stdio};
use std::sync::mpsc;
use std::time::Duration;

pub struct Lanes {
    pub dir: PathBuf,
    pub socks: Vec<String>,
    children: Vec<Child>,
}

impl Lanes {
    pub fn start(n: usize, trace: bool) -> Lanes {
        let dir = PathBuf::from(format!("/verif/target/run/{}", std::process::id()));
        let _ = std::fs::remove_dir_all(&dir);
        std::fs::create_dir_all(&dir).expect("create run dir");
        let exe = std::env::current_exe().expect("current_exe");
        let mut socks = Vec::new();
        let mut children = Vec::new();
        for i in 0..n {
            let sock = dir.join(format!("lane{}.sock", i));
            let sock = sock.to_string_lossy().to_string();
            let mut cmd = Command::new(&exe);
            cmd.arg("refsrv").arg(&sock).stdin(Stdio::null());
            if !trace {
                cmd.env_remove("SIM_REF_TRACE");
            }
            let child = cmd.spawn().expect("spawn reference server");
            socks.push(sock);
            children.push(child);
        }
        // wait for the sockets to appear
        for s in &socks {
            for _ in 0..500 {
                if std::path::Path::new(s).exists() {
                    break;
                }
                std::thread::sleep(Duration::from_millis(5));
            }
        }
        Lanes {
            dir,
            socks,
            children,
        }
    }
}

impl Lanes {
    /// Comma-separated list of all lane sockets (what a worker is given).
    pub fn all(&self) -> String {
        self.socks.join(",")
    }
}

impl Drop for Lanes {
    fn drop(&mut self) {
        for c in self.children.iter_mut() {
            let _ = c.kill();
            let _ = c.wait();
        }
        let _ = std::fs::remove_dir_all(&self.dir);
    }
}

pub struct BatchResult {
    /// One entry per job, in job order; None = the worker died / was killed before
    /// reporting that job.
    pub records: Vec<Option<RunRecord>>,
    pub note: Option<String>,
}

/// Run `jobs` in one fresh worker process connected to reference lane `sock`.
/// Never panics: a worker that dies or stalls yields missing records plus a note.
pub const DENSE_EXE: &str = "/verif/target/dense/x86_64-unknown-linux-gnu/release/sim";

pub fn run_batch(sock: &str, jobs: &[Job], per_job_timeout: Duration) -> BatchResult {
    let mut exe = std::env::current_exe().expect("current_exe");
    if jobs.iter().any(|j| j.dense) {
        if std::path::Path::new(DENSE_EXE).exists() {
            exe = PathBuf::from(DENSE_EXE);
        } else {
            return BatchResult {
                records: jobs.iter().map(|_| None).collect(),
                note: Some("dense build not available".to_string()),
            };
        }
    }
    let mut child = match Command::new(&exe)
        .arg("worker")
        .arg(sock)
        .stdin(Stdio::piped())
        .stdout(Stdio::piped())
        .spawn()
    {
        Ok(c) => c,
        Err(e) => {
            return BatchResult {
                records: jobs.iter().map(|_| None).collect(),
                note: Some(format!("cannot spawn worker: {}", e)),
            }
        }
    };
    let mut stdin = child.stdin.take().unwrap();
    let stdout = child.stdout.take().unwrap();
    let lines: Vec<String> = jobs
        .iter()
        .map(|j| serde_json::to_string(j).unwrap())
        .collect();
    // feed jobs from a helper thread (the pipe may fill up)
    let feeder = std::thread::spawn(move || {
        for l in lines {
            if stdin.write_all(l.as_bytes()).is_err() || stdin.write_all(b"\n").is_err() {
                break;
            }
        }
        drop(stdin);
    });
    let (tx, rx) = mpsc::channel::<String>();
    let reader = std::thread::spawn(move || {
        let r = BufReader::new(stdout);
        for l in r.lines() {
            match l {
                Ok(l) => {
                    if tx.send(l).is_err() {
                        break;
                    }
                }
                Err(_) => break,
            }
        }
    });
    let mut records: Vec<Option<RunRecord>> = Vec::with_capacity(jobs.len());
    let mut note = None;
    while records.len() < jobs.len() {
        match rx.recv_timeout(per_job_timeout) {
            Ok(l) => match serde_json::from_str::<RunRecord>(&l) {
                Ok(r) => records.push(Some(r)),
                Err(e) => {
                    note = Some(format!("unparsable worker record: {}", e));
                    break;
                }
            },
            Err(mpsc::RecvTimeoutError::Timeout) => {
                note = Some(format!(
                    "worker produced no record for {:?} at job index {}; killed",
                    per_job_timeout,
                    records.len()
                ));
                let _ = child.kill();
                break;
            }
            Err(mpsc::RecvTimeoutError::Disconnected) => {
                note = Some(format!(
                    "worker exited before job index {} was reported",
                    records.len()
                ));
                break;
            }
        }
    }
    let _ = child.kill();
    let status = child.wait().ok();
    let _ = feeder.join();
    let _ = reader.join();
    if records.len() < jobs.len() {
        if let (Some(n), Some(st)) = (&mut note, status) {
            n.push_str(&format!(" (exit status {:?})", st));
        }
        while records.len() < jobs.len() {
            records.push(None);
        }
    }
    BatchResult { records, note }
}
