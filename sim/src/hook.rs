//! The process-wide step callback installed into regexml (`verif-hooks` feature) and the
//! per-thread state behind it: step counting, step budget (divergence), injected caller
//! crash (F2), probe counters, and the entry into the scheduler's slow path.

use crate::model::STEP_BUDGET;
use crate::sched::SimThread;
use regexml::verif::site;
use std::cell::{Cell, RefCell};
use std::sync::atomic::{AtomicU64, Ordering};
use std::sync::Arc;

pub const NSITES: usize = site::LIMIT as usize;
/// See `on_step`.
pub const PREEMPT_STEPS: u64 = 4000;

/// Payload used to unwind a caller from inside the library. `resume_unwind` is used, so
/// no panic hook runs and nothing is printed.
#[derive(Debug)]
pub enum SimUnwind {
    Crash,
    Diverged,
}

/// Logical clock of the process: one tick per hook hit and per scheduler event. Only the
/// token holder advances it, so relaxed ordering suffices.
pub static CLOCK: AtomicU64 = AtomicU64::new(0);

thread_local! {
    static ACTIVE: Cell<bool> = const { Cell::new(false) };
    static STEPS: Cell<u64> = const { Cell::new(0) };
    static CRASH_AT: Cell<u64> = const { Cell::new(0) };
    static TOTAL_STEPS: Cell<u64> = const { Cell::new(0) };
    static MASK: Cell<u128> = const { Cell::new(0) };
    static PROBES: RefCell<[u64; NSITES]> = const { RefCell::new([0; NSITES]) };
    static SIM: RefCell<Option<Arc<SimThread>>> = const { RefCell::new(None) };
    static COLD_INIT: Cell<bool> = const { Cell::new(false) };
    /// Rolling hash of the hook sites hit during the current call: the path the library
    /// took. A function of the call alone on a tree where calls are pure.
    static CALLSIG: Cell<u64> = const { Cell::new(0) };
    /// Set while harness callback code runs on this thread (hook or edge callback), so that
    /// instrumented harness code does not re-enter the scheduler.
    static IN_CB: Cell<bool> = const { Cell::new(false) };
    static EDGES: Cell<u64> = const { Cell::new(0) };
    static EDGES_TOTAL: Cell<u64> = const { Cell::new(0) };
    static EDGE_OFFERS: Cell<u64> = const { Cell::new(0) };
    static EDGE_RNG: Cell<u64> = const { Cell::new(0x9E37_79B9_7F4A_7C15) };
    static EDGE_SEEN: RefCell<Vec<u32>> = const { RefCell::new(Vec::new()) };
    static EDGE_EPOCH: Cell<u32> = const { Cell::new(0) };
    static JUMP_AT: Cell<u64> = const { Cell::new(0) };
    static JUMP_MS: Cell<u64> = const { Cell::new(0) };
    static JUMPS_FIRED: Cell<u64> = const { Cell::new(0) };
}

/// F11: make the simulated clock jump by `ms` at the `step`-th hook hit of the next call
/// (0 disarms).
pub fn arm_jump(step: u64, ms: u64) {
    JUMP_AT.with(|j| j.set(step));
    JUMP_MS.with(|j| j.set(ms));
}

pub fn take_jumps_fired() -> u64 {
    JUMPS_FIRED.with(|j| j.replace(0))
}

/// Edges beyond this count inside one call are not scheduling points any more.
pub const EDGE_PREEMPT_LIMIT: u64 = 30_000;
/// The first EDGE_FRESH executions of an edge by a thread within a run are always offered to
/// the scheduler (rarely executed code — cache management, initialisation, slow paths — is
/// where windows hide); later executions are sampled, one in EDGE_SAMPLE (deterministic
/// per-thread generator).
pub const EDGE_FRESH: u32 = 3;
pub const EDGE_SAMPLE: u64 = 32;

static GUARDS: std::sync::atomic::AtomicU32 = std::sync::atomic::AtomicU32::new(0);
static RUN_EPOCH: std::sync::atomic::AtomicU32 = std::sync::atomic::AtomicU32::new(1);

pub fn next_guard_id() -> u32 {
    GUARDS.fetch_add(1, Ordering::Relaxed) + 1
}

/// Start a new run: per-thread edge counts of earlier runs become invalid.
pub fn new_run_epoch() {
    RUN_EPOCH.fetch_add(1, Ordering::Relaxed);
}
/// Pseudo site id of a basic-block edge.
pub const SITE_EDGE: u32 = 79;

static DENSE_BUILD: std::sync::atomic::AtomicBool = std::sync::atomic::AtomicBool::new(false);

pub fn note_dense_build() {
    DENSE_BUILD.store(true, Ordering::Relaxed);
}

/// Is this executable instrumented with basic-block edge callbacks?
pub fn dense_build() -> bool {
    DENSE_BUILD.load(Ordering::Relaxed)
}

/// Returns true if a callback is already running on this thread (then: do nothing).
#[inline]
pub fn enter_cb() -> bool {
    IN_CB.try_with(|c| c.replace(true)).unwrap_or(true)
}

#[inline]
pub fn leave_cb() {
    let _ = IN_CB.try_with(|c| c.set(false));
}

#[inline]
pub fn in_call_fast() -> bool {
    ACTIVE.try_with(|a| a.get()).unwrap_or(false)
}

/// A basic-block edge inside a guarded library call (dense build only).
pub fn on_edge(guard_id: u32) {
    let e = EDGES.with(|c| {
        let v = c.get() + 1;
        c.set(v);
        v
    });
    EDGES_TOTAL.with(|c| c.set(c.get() + 1));
    if e > EDGE_PREEMPT_LIMIT {
        return;
    }
    // how often has this thread executed this edge in this run? (epoch-stamped counters,
    // so nothing is cleared between runs)
    let epoch = EDGE_EPOCH.with(|c| c.get()) & 0x00ff_ffff;
    let count = EDGE_SEEN
        .try_with(|v| {
        let mut v = v.borrow_mut();
        let idx = guard_id as usize;
        if idx >= v.len() {
            let n = (GUARDS.load(Ordering::Relaxed) as usize + 1).max(idx + 1);
            v.resize(n, 0);
        }
        let cell = v[idx];
        let c = if cell >> 8 == epoch { (cell & 0xff) + 1 } else { 1 };
        let c = c.min(255);
        v[idx] = (epoch << 8) | c;
        c
    })
        .unwrap_or(u32::MAX);
    // deterministic sampling: a per-thread generator that advances once per edge
    let sampled = EDGE_RNG.with(|r| {
        let mut x = r.get();
        x ^= x << 13;
        x ^= x >> 7;
        x ^= x << 17;
        r.set(x);
        x % EDGE_SAMPLE == 0
    });
    if count > EDGE_FRESH && !sampled {
        return;
    }
    if (MASK.with(|m| m.get()) >> SITE_EDGE) & 1 == 0 {
        return;
    }
    let sim = SIM.try_with(|s| s.borrow().clone()).ok().flatten();
    if let Some(sim) = sim {
        EDGE_OFFERS.with(|c| c.set(c.get() + 1));
        sim.site(SITE_EDGE, true);
    }
}

/// Edges executed by the current / most recent call on this thread (debugging aid).
pub fn call_edges() -> u64 {
    EDGES.with(|c| c.get())
}

pub fn take_edge_counts() -> (u64, u64) {
    (
        EDGES_TOTAL.with(|c| c.replace(0)),
        EDGE_OFFERS.with(|c| c.replace(0)),
    )
}

/// The library called `sched_yield` or slept (interposed in clock.rs) inside a guarded call
/// on a simulated thread: a scheduling point.
pub fn on_yield() -> bool {
    if !in_call_fast() {
        return false;
    }
    if enter_cb() {
        return false;
    }
    let sim = SIM.try_with(|s| s.borrow().clone()).ok().flatten();
    let switched = match sim {
        Some(sim) => sim.yielded(),
        None => false,
    };
    leave_cb();
    switched
}

/// Path signature of the most recent guarded call on this thread.
pub fn last_sig() -> u64 {
    CALLSIG.with(|c| c.get())
}

pub fn install() {
    regexml::verif::set_step_hook(on_step);
}

/// Attach the calling OS thread to a simulated thread (or detach with `None`).
pub fn attach(sim: Option<Arc<SimThread>>, mask: u128) {
    // per-thread edge sampler: a function of (run, thread) only
    let seed = sim
        .as_ref()
        .map(|s| crate::rng::mix(s.edge_seed, s.idx as u64 + 1))
        .unwrap_or(0x9E37_79B9_7F4A_7C15);
    EDGE_RNG.with(|r| r.set(seed | 1));
    EDGE_EPOCH.with(|c| c.set(RUN_EPOCH.load(Ordering::Relaxed)));
    MASK.with(|m| m.set(mask));
    SIM.with(|s| *s.borrow_mut() = sim);
    PROBES.with(|p| *p.borrow_mut() = [0; NSITES]);
    TOTAL_STEPS.with(|t| t.set(0));
    COLD_INIT.with(|c| c.set(false));
}

pub fn take_probes() -> [u64; NSITES] {
    PROBES.with(|p| std::mem::replace(&mut *p.borrow_mut(), [0; NSITES]))
}

pub fn total_steps() -> u64 {
    TOTAL_STEPS.with(|t| t.get())
}

/// Did this thread run the one-time block-table initialisation?
pub fn did_cold_init() -> bool {
    COLD_INIT.with(|c| c.get())
}

pub fn begin_call(crash_at: u64) {
    STEPS.with(|s| s.set(0));
    EDGES.with(|e| e.set(0));
    CALLSIG.with(|c| c.set(0xcbf2_9ce4_8422_2325));
    CRASH_AT.with(|c| c.set(crash_at));
    ACTIVE.with(|a| a.set(true));
}

pub fn end_call() -> u64 {
    ACTIVE.with(|a| a.set(false));
    STEPS.with(|s| s.get())
}

pub fn in_call() -> bool {
    ACTIVE.with(|a| a.get())
}

fn on_step(site_id: u32) {
    if !ACTIVE.with(|a| a.get()) {
        return;
    }
    if enter_cb() {
        return;
    }
    on_step_inner(site_id);
    leave_cb();
}

fn on_step_inner(site_id: u32) {
    let idx = (site_id as usize).min(NSITES - 1);
    let _ = PROBES.try_with(|p| p.borrow_mut()[idx] += 1);
    if site_id == site::BLOCK_TABLE_INIT {
        // runs under the OnceLock: count it, never act on it
        COLD_INIT.with(|c| c.set(true));
        return;
    }
    CLOCK.fetch_add(1, Ordering::Relaxed);
    CALLSIG.with(|c| c.set((c.get() ^ site_id as u64).wrapping_mul(0x0000_0100_0000_01B3)));
    TOTAL_STEPS.with(|t| t.set(t.get() + 1));
    let s = STEPS.with(|s| {
        let v = s.get() + 1;
        s.set(v);
        v
    });
    if s > STEP_BUDGET {
        ACTIVE.with(|a| a.set(false));
        leave_cb();
        std::panic::resume_unwind(Box::new(SimUnwind::Diverged));
    }
    if s == JUMP_AT.with(|j| j.get()) {
        JUMP_AT.with(|j| j.set(0));
        crate::clock::jump_ms(JUMP_MS.with(|j| j.get()));
        JUMPS_FIRED.with(|j| j.set(j.get() + 1));
    }
    if s == CRASH_AT.with(|c| c.get()) {
        ACTIVE.with(|a| a.set(false));
        leave_cb();
        std::panic::resume_unwind(Box::new(SimUnwind::Crash));
    }
    // (thread-locals that own heap data may already be destroyed when a call is made from a
    // thread-local destructor at thread exit: use try_with for those)
    // scheduler: only the first PREEMPT_STEPS steps of a call are preemptible. Beyond that
    // (catastrophic backtracking, divergence) more interleavings add nothing and cost a
    // context switch each; the decision depends on the call's own step count only, so it is
    // deterministic.
    if s > PREEMPT_STEPS {
        return;
    }
    let sim = SIM.try_with(|s| s.borrow().clone()).ok().flatten();
    if let Some(sim) = sim {
        let preemptible = (MASK.with(|m| m.get()) >> idx) & 1 == 1;
        if preemptible || sim.must_park() {
            sim.site(site_id, preemptible);
        }
    }
}
