//! Frozen workload corpus. Patterns and inputs are *not* the search space of this
//! machinery (that would be the business of the input-quantified properties); they are
//! chosen so that every stateful mechanism C18 names is exercised: capture arrays,
//! back-reference arrays, the zero-length-match memo, the line-seek / prefix / first-set
//! scans, the process-wide block table, every Error variant, panicking and spinning calls.
//!
//! Two sources: `corpus_repo.jsonl` (families harvested once from the repository's own
//! tests by tools/extract_corpus.py) and the hand-written families below.

use crate::model::Key;
use std::sync::OnceLock;

#[derive(Clone, Debug)]
pub struct Family {
    pub key: Key,
    pub inputs: Vec<String>,
    pub repls: Vec<String>,
    /// Uses \p{Is...} block escapes (drives the process-wide block table).
    pub blocky: bool,
    /// Hand-written for a mechanism (weighted up by the generator).
    pub hand: bool,
    /// The key does not compile (error-path family; rarely chosen as a slot occupant).
    pub err: bool,
}

const REPO: &str = include_str!("../corpus_repo.jsonl");
const BLOCKS: &str = include_str!("../corpus_blocks.tsv");

/// (lookup name, first code point, last code point) of every block, sorted by name so
/// that neighbours have similar names (Greek / GreekExtended, Cyrillic / CyrillicExtended-A).
pub fn blocks() -> &'static [(String, u32, u32)] {
    static B: OnceLock<Vec<(String, u32, u32)>> = OnceLock::new();
    B.get_or_init(|| {
        let mut v: Vec<(String, u32, u32)> = BLOCKS
            .lines()
            .filter_map(|l| {
                let mut it = l.split('\t');
                Some((
                    it.next()?.to_string(),
                    it.next()?.parse().ok()?,
                    it.next()?.parse().ok()?,
                ))
            })
            .collect();
        v.sort();
        v
    })
}

/// (dialect_is_xsd, pattern, flags, inputs, replacements)
type Hand = (bool, &'static str, &'static str, &'static [&'static str], &'static [&'static str]);

const HAND: &[Hand] = &[
    // --- zero-length-match memo (History): variable-length bodies under X*, nullable bodies
    (false, r"(?:ab|c)*d", "", &["abcd", "ccabd", "abab", "d", "cabcabd-abd", "xxcdxxabd"], &["<$0>", "-"]),
    (false, r"(a|ab)*c", "", &["abac", "aabc", "ababab", "c", "abcabc", "zzabczzac"], &["[$1]", ""]),
    (false, r"(?:a?|b)*c", "", &["aabc", "bbbc", "c", "abab", "ccc", "xacxbc"], &["_"]),
    (false, r"(?:a|bb)+?c", "", &["abbc", "cc", "ac", "bbbbc", "abbabbc", "c"], &["#"]),
    (false, r"(?:ab|c)*", "", &["abcab", "", "ccc", "x"], &["."]),
    (false, r"(?:(?:ab|c)*d)+e", "", &["abde", "dcde", "abcdabcde", "e", "ddde-de"], &["$0$0"]),
    (false, r"(a|b).*?(?:cd|e)*\1", "", &["abcdbbb", "abbbb", "bb", "acdea", "aea-beb", "abcdb"], &["<$1>"]),
    (false, r"(?:x*|y)*z", "", &["xxyz", "z", "yyyz", "xyxy", "zxz"], &["!"]),
    (false, r"((?:ab|a)*)(b*)c", "", &["ababc", "aabbc", "c", "abbbc", "xabc-ac"], &["$2$1"]),
    (false, r"(?:a*)*b", "", &["aaab", "b", "aaaa", "ab-aab"], &["B"]),
    (false, r"(?:a|ab)(?:c|bcd)*(?:d*)e", "", &["abcde", "acde", "abcdbcde", "ae", "abe"], &["."]),
    (false, r"(\w*?)(?:-|_)*(\d*)x", "", &["ab--12x", "x", "__x", "a1x-b2x", "q-_-7x"], &["$2:$1"]),
    // --- back-references
    (false, r"(a|b)\1", "", &["aa", "ab", "bb", "xbbx", "abba", "aabb"], &["[$1]"]),
    (false, r"(a+)b\1", "", &["aabaa", "aba", "aaabaa", "ab", "aabaaab"], &["$1"]),
    (false, r"([a-c]*)\1", "", &["abcabc", "aa", "abab", "", "cabcab"], &["<$1>"]),
    (false, r"(.)(.)\2\1", "", &["abba", "xyyx-abba", "abab", "aaaa"], &["$2$1"]),
    (false, r"([md])[aeiou]\1", "i", &["Mum", "Mud", "dad", "DAD", "madam"], &["$1"]),
    (false, r"(a)|b\1", "", &["a", "b", "ba", "ab"], &["[$1]"]),
    (false, r"^(\w+) \1$", "m", &["hey hey", "hey you", "a a\nb b\nc d", "x x\n"], &["$1"]),
    (false, r"(?:(a)|b)+\1", "", &["aba", "bba", "aa", "abab"], &["$1."]),
    // --- captures and $N
    (false, r"(\w+)\s(\w+)", "", &["hello world", "a b c d", "one  two", "x"], &["$2 $1", "$1$1", "\\$$1", "$3"]),
    (false, r"(a)(b)(c)(d)(e)(f)(g)(h)(i)(j)(k)", "", &["abcdefghijk", "xabcdefghijkx", "abcdefghij"], &["$11$10", "$1$12", "$110", "$0"]),
    (false, r"(a(b?))c", "", &["abc", "ac", "xacabc"], &["$1-$2"]),
    (false, r"a(b?)c", "", &["ac", "abc", "acabc"], &["[$1]"]),
    (false, r"((a)|(b))+", "", &["ab", "ba", "aab", "bbb"], &["$2$3"]),
    (false, r"(\d+)-(\d+)", "", &["10-20", "1-2 3-4 5-6", "a-b", "7-"], &["$2-$1", "$0", "\\\\", "$"]),
    (false, r"(x)?(y)?z", "", &["xyz", "yz", "z", "xz", "zxyz"], &["$1|$2"]),
    // --- groups set on an attempt that fails, then a match without them (capture reset / restore)
    (false, r"(?:x|(a))(b)c", "", &["abd xbc", "abc", "xbc abd", "abd"], &["[$1$2]", "$1"]),
    (false, r"(a)?(?:b|c)d|ab(e)", "", &["abe", "abd", "cd abe", "ab"], &["<$1$2>"]),
    (false, r"(?:(a)b|(a)c)d", "", &["abx acd", "abd", "acd abd"], &["$1|$2"]),
    (false, r"(?:(\w)\d)*z|(\w)+y", "", &["a1b2y", "a1z", "a1b2z a1y"], &["[$1][$2]"]),
    (false, r"(a+)+b|(a+)c", "", &["aaac", "aab", "aac aab"], &["$1.$2"]),
    (false, r"(?:(x)|y)(?:(z)|w)q|yw", "", &["xzp yw", "xzq", "ywq"], &["$1$2"]),
    // --- ^ under m (line-seek loop), $, dot and s
    (false, r"^a", "m", &["a\na\nb", "b\na", "\n\na", "ba\nab\n", "a"], &["^"]),
    (false, r"^\w+$", "m", &["ab\ncd\n\nef", "ab cd\nef", "\n", "x"], &["<$0>"]),
    (false, r"^abc", "", &["abc", "xabc", "abcabc", "\nabc"], &["-"]),
    (false, r"b$", "m", &["ab\nab\nabc", "b", "b\n", "abc"], &["$$"]),
    (false, r"a.c", "s", &["a\nc", "abc", "ac", "a\n\nc"], &["."]),
    (false, r"a.c", "", &["a\nc", "abc", "a c-a\tc"], &["."]),
    (false, r"^$", "m", &["\n\n", "a\n\nb", "x"], &["e"]),
    // --- prefix scan, first-set scan, preconditions, minimum length
    (false, r"abc\d+", "", &["abc1", "xxabc123xabc", "ababc9", "abc"], &["#$0"]),
    (false, r"abc\d+", "i", &["ABC1", "xxaBc123xAbC4", "abc"], &["#"]),
    (false, r"[a-c]x", "", &["ax", "zzbxcx", "dx", "abcx"], &["_"]),
    (false, r"\d{3}-\d{4}", "", &["555-1234", "call 555-1234 or 555-9876", "55-1234"], &["###-####"]),
    (false, r"(?:foo|bar)baz", "", &["foobaz", "barbaz", "foobarbaz", "baz"], &["$0!"]),
    (false, r"a{2,3}b", "", &["aab", "aaab", "aaaab", "ab", "aabaaab"], &["B"]),
    (false, r"x+?y", "", &["xxy", "xyxxy", "y", "xxx"], &["Y"]),
    (false, r"[^,]+", "", &["a,b,,c", ",", "abc", ",,x"], &["<$0>"]),
    (false, r"\s+", "", &["a b  c\td\n e", "   ", "abc", " a "], &[" ", ""]),
    (false, r",", "", &["a,b,,c", ",", "abc", ",a,"], &[";"]),
    // --- block escapes: the process-wide lazily built table
    (false, r"\p{IsBasicLatin}+", "", &["abc", "aβc", "ωωω", "a😀b"], &["L"]),
    (false, r"\p{IsGreek}+", "", &["αβγ", "abc", "aαbβ", "Ωmega"], &["G"]),
    (false, r"\P{IsBasicLatin}", "", &["abc", "aβc", "日本語", "x😀"], &["?"]),
    (false, r"\p{IsCyrillic}+\s\p{IsCyrillic}+", "", &["привет мир", "hello мир", "да нет да"], &["$0"]),
    (false, r"[\p{IsLatin-1Supplement}\p{IsLatinExtended-A}]+", "", &["éàü", "abc", "ſaĀé", "naïve café"], &["_"]),
    (false, r"\p{IsPrivateUse}", "", &["\u{E000}", "a", "\u{F0000}x", "\u{10FFFD}"], &["P"]),
    (false, r"\p{IsHiragana}+|\p{IsKatakana}+", "", &["ひらがなカタカナ", "abc", "かな kana カナ"], &["<$0>"]),
    (false, r"\p{IsGreekandCoptic}", "", &["α", "a"], &["g"]),
    (false, r"\p{IsCombiningMarksforSymbols}", "", &["\u{20D0}", "a"], &["c"]),
    (false, r"\p{IsNope}", "", &["a"], &["x"]),
    (false, r"\p{IsBasic Latin}", "", &["a"], &["x"]),
    (false, r"[\p{IsArabic}-[\p{Nd}]]+", "", &["مرحبا", "abc", "١٢٣مرحبا"], &["A"]),
    (false, r"\p{IsEmoticons}", "", &["😀", "a😀b😁", "abc"], &[":)"]),
    (false, r"\p{IsMathematicalOperators}+", "", &["∀x∃y", "a+b", "∑∏"], &["M"]),
    (false, r"(\p{IsHebrew}+)\s(\p{IsBasicLatin}+)", "", &["שלום abc", "abc שלום", "שלום"], &["$2 $1"]),
    (true, r"\p{IsBasicLatin}+", "", &["abc", "aβc"], &["L"]),
    (true, r"\p{IsThai}*x", "", &["ไทยx", "x", "abc"], &["T"]),
    // --- categories and class algebra
    (false, r"\p{Lu}\p{Ll}+", "", &["Hello World", "hello", "ÀB", "Ünïcode Ωmega"], &["<$0>"]),
    (false, r"\p{Nd}+", "", &["abc123", "١٢٣", "x", "4 5 six"], &["#"]),
    (false, r"[\p{L}-[\p{Lu}]]+", "", &["abcDEF", "ABC", "aBcD"], &["l"]),
    (false, r"[a-z-[aeiou]]+", "", &["hello world", "aeiou", "rhythm"], &["_"]),
    (false, r"\w+", "", &["hello, world!", "  ", "a_b-c", "日本 語"], &["W"]),
    (false, r"\i\c*", "", &["xml:name 1abc _x", "123", "a-b.c"], &["N"]),
    (false, r"[^\d\s]+", "", &["ab 12 cd", "1 2", "x"], &["."]),
    // --- flags
    (false, r"hello", "i", &["HELLO", "HeLLo world hello", "help"], &["hi"]),
    (false, r"a b c", "x", &["abc", "a b c", "xabcx"], &["-"]),
    (false, r"a.b", "q", &["a.b", "axb", "a.b.a.b"], &["$1", "x"]),
    (false, r"(a)|(b)", "q", &["(a)|(b)", "a", "b"], &["\\"]),
    (false, r"^ a \s b $", "mx", &["a b", "a b\na\tb", "ab"], &["*"]),
    (false, r"straße", "i", &["STRASSE", "Straße", "strasse"], &["S"]),
    (false, r"[k-m]+", "i", &["KLM", "klm", "\u{212A}lm", "xyz"], &["K"]),
    // --- special casing under i (case-folding tables; characters whose case class is irregular)
    (false, r"[İ]", "i", &["i", "I", "İ", "ı", "xiX"], &["<$0>"]),
    (false, r"[^İ]+", "i", &["ii", "İi", "aİb", "I"], &["_"]),
    (false, r"[ı]+", "i", &["i", "I", "ı", "İ"], &["_"]),
    (false, r"[ß]+", "i", &["ss", "ß", "ẞ", "S"], &["_"]),
    (false, r"[ſ]+", "i", &["s", "S", "ſ", "ſs"], &["_"]),
    (false, "[\u{212A}]", "i", &["k", "K", "\u{212A}"], &["_"]),
    (false, r"[ǅ]", "i", &["ǆ", "Ǆ", "ǅ"], &["_"]),
    (false, r"[σ]+", "i", &["ς", "Σ", "σ", "ΣΑΣ"], &["_"]),
    (false, "[\u{2126}]", "i", &["ω", "Ω", "\u{2126}"], &["_"]),
    (false, r"[a-z]+", "i", &["İstanbul", "ISTANBUL", "ıi", "Straße"], &["<$0>"]),
    (false, r"[A-Z]+", "i", &["istanbul", "ıi", "ǆ"], &["<$0>"]),
    (true, r"[Ā-ſ-[İ]]+", "i", &["i", "İ", "ĀāIi"], &["_"]),
    (false, r"İ", "i", &["i", "I", "İ", "i̇"], &["_"]),
    // --- XSD dialect
    (true, r"a+b", "", &["aab", "xaabx", "b", "ab"], &["B"]),
    (true, r"\d{2,3}", "", &["12", "1234", "1", "a12b345"], &["N"]),
    (true, r"a+?", "", &["aa"], &["x"]),
    (true, r"^a", "", &["a", "^a", "ba"], &["x"]),
    (true, r"(a)\1", "", &["aa"], &["x"]),
    (true, r"[a-c]+|x", "", &["abcx", "x", "d"], &["<$0>"]),
    (true, r"a.b", "q", &["a.b"], &["x"]),
    // --- error paths (results too)
    (false, r"(", "", &["a"], &["x"]),
    (false, r"[a", "", &["a"], &["x"]),
    (false, r"a{2,1}", "", &["aa"], &["x"]),
    (false, r"\p{Xx}", "", &["a"], &["x"]),
    (false, r"a", "z", &["a"], &["x"]),
    (false, r"a", "i;j", &["a"], &["x"]),
    (false, r"\1(a)", "", &["aa"], &["x"]),
    (false, r"a**", "", &["aa"], &["x"]),
    (false, r"[z-a]", "", &["a"], &["x"]),
    (false, r"(?<n>a)", "", &["a"], &["x"]),
    // --- regexes that match the empty string
    (false, r"a*", "", &["aaa", "", "baab", "b"], &["x"]),
    (false, r".?", "", &["abba", ""], &["x"]),
    (false, r"(a|)", "", &["a", "ba", ""], &["[$1]"]),
    (false, r"^", "m", &["a\nb", ""], &["x"]),
    (false, r"\b*", "", &["a"], &["x"]),
    (false, r"(?:)", "", &["ab", ""], &["x"]),
    // --- unicode inputs, astral, combining
    (false, r".", "", &["a😀b", "e\u{301}", "\u{10FFFF}", "𝒳y"], &["<$0>"]),
    (false, r"[😀-😏]+", "", &["😀😁😂x", "abc", "x😏"], &["E"]),
    (false, r"é", "", &["e\u{301}", "é", "e"], &["é"]),
    (false, r"\S+", "", &["a b", "日本 語", " \u{3000} x"], &["S"]),
];

/// Hand-written keys that do not compile (error-path families).
const HAND_ERR: &[&str] = &[
    r"\p{IsNope}", r"\p{IsBasic Latin}", r"(", r"[a", r"a{2,1}", r"\p{Xx}", r"\1(a)", r"a**", r"[z-a]",
    r"(?<n>a)", r"\b*",
];
const XSD_ERR: &[&str] = &[r"a+?", r"(a)\1", r"a.b"];

const GENERIC_INPUTS: &[&str] = &[
    "", "a", "b", "abc", "aaa", "abcabc", "ab\ncd", "αβγ", "x😀y", "a\u{301}", "ABC abc 123",
    "cc", "abcdbbb", "aaaaaaaaaaaaaaaaaaaaaaaa", "abababababab", "\n", " ", "a,b,,c", "xyz",
    "The quick brown fox", "aabbaabb", "d", "--", "0123456789", "ab ab", "Ab\nAb\nab",
];

const GENERIC_REPLS: &[&str] = &[
    "", "x", "$0", "$1", "[$1]", "$2$1", "\\$", "\\\\", "$", "\\", "$a", "$9", "$10", "<$0$0>",
];

pub struct Corpus {
    pub families: Vec<Family>,
    pub hand: Vec<usize>,
    pub blocky: Vec<usize>,
    pub repo: Vec<usize>,
    pub ok: Vec<usize>,
}

fn parse_repo() -> Vec<Family> {
    let mut out = Vec::new();
    for line in REPO.lines() {
        let v: serde_json::Value = match serde_json::from_str(line) {
            Ok(v) => v,
            Err(_) => continue,
        };
        let strs = |k: &str| -> Vec<String> {
            v[k].as_array()
                .map(|a| {
                    a.iter()
                        .filter_map(|x| x.as_str().map(|s| s.to_string()))
                        .collect()
                })
                .unwrap_or_default()
        };
        let p = v["p"].as_str().unwrap_or("").to_string();
        let blocky = p.contains("{Is");
        out.push(Family {
            key: Key {
                xsd: v["xsd"].as_bool().unwrap_or(false),
                p,
                f: v["f"].as_str().unwrap_or("").to_string(),
            },
            inputs: strs("in"),
            repls: strs("re"),
            blocky,
            hand: false,
            err: v["err"].as_bool().unwrap_or(false),
        });
    }
    out
}

pub fn corpus() -> &'static Corpus {
    static C: OnceLock<Corpus> = OnceLock::new();
    C.get_or_init(|| {
        let mut families = Vec::new();
        for (xsd, p, f, ins, res) in HAND {
            families.push(Family {
                key: Key {
                    xsd: *xsd,
                    p: p.to_string(),
                    f: f.to_string(),
                },
                inputs: ins.iter().map(|s| s.to_string()).collect(),
                repls: res.iter().map(|s| s.to_string()).collect(),
                blocky: p.contains("{Is"),
                hand: true,
                err: HAND_ERR.contains(p) || (*f == "z") || (*f == "i;j") || (*xsd && XSD_ERR.contains(p)),
            });
        }
        families.extend(parse_repo());
        let hand = (0..families.len()).filter(|&i| families[i].hand).collect();
        let blocky = (0..families.len())
            .filter(|&i| families[i].blocky)
            .collect();
        let repo = (0..families.len())
            .filter(|&i| !families[i].hand)
            .collect();
        let ok = (0..families.len()).filter(|&i| !families[i].err).collect();
        Corpus {
            families,
            hand,
            blocky,
            repo,
            ok,
        }
    })
}

pub fn generic_inputs() -> &'static [&'static str] {
    GENERIC_INPUTS
}

pub fn generic_repls() -> &'static [&'static str] {
    GENERIC_REPLS
}
