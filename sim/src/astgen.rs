//! Small seeded pattern generator (<= ~14 nodes) for workload variety: alternations with
//! and without capture groups, nested and lazy quantifiers over variable-length bodies,
//! back-references, anchors. Inputs are sampled from the pattern (strings that match) and
//! then damaged (strings that nearly match, so that attempts fail after having set groups).
//! This is workload generation for C18's histories, not a search of the input space.

use crate::corpus::Family;
use crate::model::Key;
use crate::rng::Rng;

#[derive(Clone, Debug)]
enum Node {
    Lit(char),
    Class(&'static str, &'static [char]),
    Dot,
    Seq(Vec<Node>),
    Alt(Vec<Node>),
    Group(Box<Node>, usize),
    NonCap(Box<Node>),
    Rep(Box<Node>, u32, Option<u32>, bool),
    BackRef(usize),
    Bol,
    Eol,
}

const ALPHA: &[char] = &['a', 'b', 'c', 'x'];
const CLASSES: &[(&str, &[char])] = &[
    ("[ab]", &['a', 'b']),
    ("[^a]", &['b', 'c', 'x']),
    ("[a-c]", &['a', 'b', 'c']),
    ("\\d", &['1', '7']),
    ("\\s", &[' ']),
];

struct Gen<'r> {
    rng: &'r mut Rng,
    groups: usize,
    nodes: usize,
}

impl Gen<'_> {
    fn atom(&mut self, depth: u32) -> Node {
        self.nodes += 1;
        let r = self.rng.below(100);
        if depth >= 3 || self.nodes > 12 || r < 40 {
            return match self.rng.below(10) {
                0..=6 => Node::Lit(*self.rng.pick(ALPHA)),
                7..=8 => {
                    let c = self.rng.pick(CLASSES);
                    Node::Class(c.0, c.1)
                }
                _ => Node::Dot,
            };
        }
        match r {
            40..=62 => {
                self.groups += 1;
                let g = self.groups;
                Node::Group(Box::new(self.alt(depth + 1)), g)
            }
            63..=82 => Node::NonCap(Box::new(self.alt(depth + 1))),
            83..=90 if self.groups > 0 => Node::BackRef(1 + self.rng.below(self.groups)),
            _ => Node::Lit(*self.rng.pick(ALPHA)),
        }
    }

    fn piece(&mut self, depth: u32) -> Node {
        let a = self.atom(depth);
        if matches!(a, Node::BackRef(_)) {
            return a;
        }
        match self.rng.below(100) {
            0..=54 => a,
            55..=64 => Node::Rep(Box::new(a), 0, Some(1), self.rng.chance(25, 100)),
            65..=76 => Node::Rep(Box::new(a), 0, None, self.rng.chance(25, 100)),
            77..=88 => Node::Rep(Box::new(a), 1, None, self.rng.chance(25, 100)),
            _ => {
                let lo = self.rng.below(3) as u32;
                let hi = lo + self.rng.below(3) as u32;
                Node::Rep(Box::new(a), lo, Some(hi.max(1)), false)
            }
        }
    }

    fn seq(&mut self, depth: u32) -> Node {
        let n = 1 + self.rng.below(if depth == 0 { 4 } else { 3 });
        let mut v = Vec::new();
        for _ in 0..n {
            v.push(self.piece(depth));
        }
        if v.len() == 1 {
            v.pop().unwrap()
        } else {
            Node::Seq(v)
        }
    }

    fn alt(&mut self, depth: u32) -> Node {
        let n = match self.rng.below(100) {
            0..=54 => 1,
            55..=87 => 2,
            _ => 3,
        };
        let mut v = Vec::new();
        for _ in 0..n {
            v.push(self.seq(depth));
        }
        if v.len() == 1 {
            v.pop().unwrap()
        } else {
            Node::Alt(v)
        }
    }
}

fn render(n: &Node, out: &mut String) {
    match n {
        Node::Lit(c) => out.push(*c),
        Node::Class(s, _) => out.push_str(s),
        Node::Dot => out.push('.'),
        Node::Seq(v) => v.iter().for_each(|x| render(x, out)),
        Node::Alt(v) => {
            for (i, x) in v.iter().enumerate() {
                if i > 0 {
                    out.push('|');
                }
                render(x, out);
            }
        }
        Node::Group(b, _) => {
            out.push('(');
            render(b, out);
            out.push(')');
        }
        Node::NonCap(b) => {
            out.push_str("(?:");
            render(b, out);
            out.push(')');
        }
        Node::Rep(b, lo, hi, lazy) => {
            let needs_wrap = matches!(**b, Node::Seq(_) | Node::Alt(_) | Node::Rep(..));
            if needs_wrap {
                out.push_str("(?:");
            }
            render(b, out);
            if needs_wrap {
                out.push(')');
            }
            match (lo, hi) {
                (0, Some(1)) => out.push('?'),
                (0, None) => out.push('*'),
                (1, None) => out.push('+'),
                (l, Some(h)) => out.push_str(&format!("{{{},{}}}", l, h)),
                (l, None) => out.push_str(&format!("{{{},}}", l)),
            }
            if *lazy {
                out.push('?');
            }
        }
        Node::BackRef(g) => out.push_str(&format!("\\{}", g)),
        Node::Bol => out.push('^'),
        Node::Eol => out.push('$'),
    }
}

fn sample(n: &Node, rng: &mut Rng, caps: &mut Vec<Option<String>>, out: &mut String) {
    match n {
        Node::Lit(c) => out.push(*c),
        Node::Class(_, cs) => out.push(*rng.pick(cs)),
        Node::Dot => out.push(*rng.pick(&['a', 'z', '-'])),
        Node::Seq(v) => v.iter().for_each(|x| sample(x, rng, caps, out)),
        Node::Alt(v) => {
            let i = rng.below(v.len());
            sample(&v[i], rng, caps, out)
        }
        Node::Group(b, g) => {
            let start = out.len();
            sample(b, rng, caps, out);
            if caps.len() <= *g {
                caps.resize(*g + 1, None);
            }
            caps[*g] = Some(out[start..].to_string());
        }
        Node::NonCap(b) => sample(b, rng, caps, out),
        Node::Rep(b, lo, hi, _) => {
            let hi = hi.unwrap_or(lo + 2).min(lo + 2);
            let k = *lo + rng.below((hi - lo + 1) as usize) as u32;
            for _ in 0..k {
                sample(b, rng, caps, out);
            }
        }
        Node::BackRef(g) => {
            if let Some(Some(s)) = caps.get(*g) {
                let s = s.clone();
                out.push_str(&s);
            }
        }
        Node::Bol | Node::Eol => {}
    }
}

fn damage(rng: &mut Rng, s: &str) -> String {
    let mut cs: Vec<char> = s.chars().collect();
    if cs.is_empty() {
        return "x".to_string();
    }
    let i = rng.below(cs.len());
    match rng.below(4) {
        0 => {
            cs.remove(i);
        }
        1 => cs[i] = *rng.pick(&['a', 'b', 'c', 'x', 'd', ' ']),
        2 => cs.insert(i, *rng.pick(&['a', 'b', 'd', '-'])),
        _ => cs.truncate(i),
    }
    cs.into_iter().collect()
}

/// A generated family: pattern, flags, 5-7 inputs (matching, nearly matching and
/// concatenations of both), replacement strings that reference its groups.
fn word(rng: &mut Rng, first: char) -> String {
    let mut w = String::new();
    w.push(first);
    for _ in 0..rng.below(3) {
        w.push(*rng.pick(&['a', 'b', 'c', 'y']));
    }
    w
}

/// Templates for one mechanism C18 names (capture arrays reset per search): a group is set
/// during an attempt that fails, and a later attempt of the same search succeeds through a
/// branch in which that group does not take part.
fn template_family(rng: &mut Rng) -> Family {
    let a = word(rng, 'a');
    let b = word(rng, 'b');
    let c = word(rng, 'c');
    let s1 = word(rng, 'x');
    let s2 = format!("{}z", s1);
    let (p, near, hit) = match rng.below(4) {
        0 => (
            format!("(?:{}|({}))({}){}", a, b, c, s2),
            format!("{}{}{}", b, c, s1),
            format!("{}{}{}", a, c, s2),
        ),
        1 => (
            format!("({})?{}{}", a, b, s2),
            format!("{}{}{}", a, b, s1),
            format!("{}{}", b, s2),
        ),
        2 => (
            format!("(?:({}){}|{}){}", a, b, c, s2),
            format!("{}{}{}", a, b, s1),
            format!("{}{}", c, s2),
        ),
        _ => (
            format!("(?:({})|({}))+{}", a, b, s2),
            format!("{}{}{}", a, b, s1),
            format!("{}{}", b, s2),
        ),
    };
    let inputs = vec![
        format!("{} {}", near, hit),
        hit.clone(),
        near.clone(),
        format!("{}{}", hit, near),
        format!("{} {} {}", near, near, hit),
    ];
    Family {
        key: Key {
            xsd: false,
            p,
            f: String::new(),
        },
        inputs,
        repls: vec!["[$1$2]".into(), "<$1>".into(), "$2".into()],
        blocky: false,
        hand: false,
        err: false,
    }
}

pub fn family(rng: &mut Rng) -> Family {
    if rng.chance(18, 100) {
        return template_family(rng);
    }
    let mut g = Gen {
        rng,
        groups: 0,
        nodes: 0,
    };
    let mut top = g.alt(0);
    let groups = g.groups;
    if rng.chance(12, 100) {
        top = Node::Seq(vec![Node::Bol, top]);
    }
    if rng.chance(8, 100) {
        top = Node::Seq(vec![top, Node::Eol]);
    }
    let mut p = String::new();
    render(&top, &mut p);
    let mut inputs: Vec<String> = Vec::new();
    let mut good: Vec<String> = Vec::new();
    for _ in 0..3 {
        let mut s = String::new();
        let mut caps = Vec::new();
        sample(&top, rng, &mut caps, &mut s);
        good.push(s.chars().take(16).collect());
    }
    for s in &good {
        inputs.push(s.clone());
        inputs.push(damage(rng, s));
    }
    // near-miss followed by a hit: an attempt fails after setting groups, a later one succeeds
    inputs.push(format!("{} {}", damage(rng, &good[0]), good[1]));
    inputs.push(format!("{}{}", good[2], good[0]));
    inputs.retain(|s| s.chars().count() <= 40);
    inputs.dedup();
    let mut repls = vec!["[$0]".to_string()];
    if groups >= 1 {
        repls.push("<$1>".to_string());
    }
    if groups >= 2 {
        repls.push("$2-$1".to_string());
        repls.push(format!("${}", groups));
    }
    let f = match rng.below(10) {
        0 => "i",
        1 => "m",
        2 => "s",
        _ => "",
    };
    Family {
        key: Key {
            xsd: false,
            p,
            f: f.to_string(),
        },
        inputs,
        repls,
        blocky: false,
        hand: false,
        err: false,
    }
}
