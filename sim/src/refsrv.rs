//! Reference model: "the same call on a freshly compiled Regex" evaluated in a pristine
//! process. The server process itself never runs regexml engine code; for every distinct
//! request it fork()s, and the child compiles a fresh object, performs the one call,
//! writes the rendered outcome to a pipe and _exit()s. Answers are memoised (they are
//! plain strings), so the memo cannot taint later children.
//!
//! Each new request is evaluated twice, under two different ahash key streams; if the two
//! answers differ the result is flagged `unstable` (the call is not a function of its
//! arguments even on a fresh object in a fresh process).

use crate::exec;
use crate::hashkeys;
use crate::model::{Key, Method, RefResult, Request};
use std::collections::HashMap;
use std::io::{Read, Write};
use std::os::unix::net::{UnixListener, UnixStream};
use std::sync::Arc;

// ---------- framing ----------

fn put_field(buf: &mut Vec<u8>, f: &[u8]) {
    buf.extend_from_slice(&(f.len() as u32).to_le_bytes());
    buf.extend_from_slice(f);
}

fn write_msg(w: &mut impl Write, fields: &[&[u8]]) -> std::io::Result<()> {
    let mut body = Vec::new();
    body.extend_from_slice(&(fields.len() as u32).to_le_bytes());
    for f in fields {
        put_field(&mut body, f);
    }
    let mut msg = Vec::with_capacity(body.len() + 4);
    msg.extend_from_slice(&(body.len() as u32).to_le_bytes());
    msg.extend_from_slice(&body);
    w.write_all(&msg)?;
    w.flush()
}

fn read_msg(r: &mut impl Read) -> std::io::Result<Option<Vec<Vec<u8>>>> {
    let mut len = [0u8; 4];
    match r.read_exact(&mut len) {
        Ok(()) => {}
        Err(e) if e.kind() == std::io::ErrorKind::UnexpectedEof => return Ok(None),
        Err(e) => return Err(e),
    }
    let n = u32::from_le_bytes(len) as usize;
    let mut body = vec![0u8; n];
    r.read_exact(&mut body)?;
    parse_body(&body)
        .map(Some)
        .ok_or_else(|| std::io::Error::new(std::io::ErrorKind::InvalidData, "bad frame"))
}

fn parse_body(body: &[u8]) -> Option<Vec<Vec<u8>>> {
    let mut pos = 0usize;
    let take4 = |pos: &mut usize| -> Option<u32> {
        let b = body.get(*pos..*pos + 4)?;
        *pos += 4;
        Some(u32::from_le_bytes([b[0], b[1], b[2], b[3]]))
    };
    let nf = take4(&mut pos)? as usize;
    let mut out = Vec::with_capacity(nf);
    for _ in 0..nf {
        let l = take4(&mut pos)? as usize;
        out.push(body.get(pos..pos + l)?.to_vec());
        pos += l;
    }
    Some(out)
}

fn req_fields(req: &Request) -> Vec<Vec<u8>> {
    vec![
        vec![req.key.xsd as u8],
        req.key.p.as_bytes().to_vec(),
        req.key.f.as_bytes().to_vec(),
        req.method.name().as_bytes().to_vec(),
        req.input.as_bytes().to_vec(),
        req.repl.as_bytes().to_vec(),
    ]
}

fn fields_req(f: &[Vec<u8>]) -> Option<Request> {
    if f.len() != 6 {
        return None;
    }
    let s = |i: usize| String::from_utf8(f[i].clone()).ok();
    Some(Request {
        key: Key {
            xsd: f[0].first().copied()? != 0,
            p: s(1)?,
            f: s(2)?,
        },
        method: Method::from_name(&s(3)?)?,
        input: s(4)?,
        repl: s(5)?,
    })
}

fn res_to_bytes(r: &RefResult) -> Vec<u8> {
    serde_json::to_vec(r).expect("serialise RefResult")
}

fn res_from_bytes(b: &[u8]) -> Option<RefResult> {
    serde_json::from_slice(b).ok()
}

// ---------- pristine child ----------


/// Fork; in the child evaluate `req` on a fresh object and exit. Returns the child's answer,
/// or a synthetic `Aborted(...)` result if the child died.
/// Wall-clock limit for one reference evaluation in its child process.
const CHILD_TIMEOUT_S: u64 = 6;

fn eval_in_child(req: &Request, hash_stream: u64) -> RefResult {
    let mut fds = [0i32; 2];
    // SAFETY: plain pipe(2)
    if unsafe { libc::pipe(fds.as_mut_ptr()) } != 0 {
        panic!("pipe failed");
    }
    // SAFETY: this process is single-threaded (the server never spawns threads), so the
    // child may use the full runtime.
    let pid = unsafe { libc::fork() };
    if pid < 0 {
        panic!("fork failed");
    }
    if pid == 0 {
        // child
        unsafe { libc::close(fds[0]) };
        let req = req.clone();
        hashkeys::reseed(hash_stream);
        // The child is single-threaded and runs the call on its main thread, whose stack
        // limit the server raised at start-up (never smaller than a simulated thread's).
        let res = exec::reference(&req);
        let bytes = res_to_bytes(&res);
        let mut off = 0usize;
        while off < bytes.len() {
            let n = unsafe {
                libc::write(
                    fds[1],
                    bytes[off..].as_ptr() as *const libc::c_void,
                    bytes.len() - off,
                )
            };
            if n <= 0 {
                break;
            }
            off += n as usize;
        }
        unsafe { libc::_exit(0) };
    }
    // parent
    unsafe { libc::close(fds[1]) };
    let mut out = Vec::new();
    let mut buf = [0u8; 65536];
    let t0 = std::time::Instant::now();
    let mut timed_out = false;
    loop {
        // a reference evaluation that does not come back (a library that hands work to
        // threads of its own, which the step budget of the calling thread does not stop)
        // is given CHILD_TIMEOUT_S seconds, then killed and reported as not completing
        let left = CHILD_TIMEOUT_S as i64 * 1000 - t0.elapsed().as_millis() as i64;
        if left <= 0 {
            timed_out = true;
            unsafe { libc::kill(pid, libc::SIGKILL) };
            break;
        }
        let mut pfd = libc::pollfd { fd: fds[0], events: libc::POLLIN, revents: 0 };
        let pr = unsafe { libc::poll(&mut pfd, 1, left.min(1000) as i32) };
        if pr == 0 {
            continue;
        }
        if pr < 0 {
            if std::io::Error::last_os_error().kind() == std::io::ErrorKind::Interrupted {
                continue;
            }
            break;
        }
        let n = unsafe { libc::read(fds[0], buf.as_mut_ptr() as *mut libc::c_void, buf.len()) };
        if n < 0 {
            let e = std::io::Error::last_os_error();
            if e.kind() == std::io::ErrorKind::Interrupted {
                continue;
            }
            break;
        }
        if n == 0 {
            break;
        }
        out.extend_from_slice(&buf[..n as usize]);
    }
    unsafe { libc::close(fds[0]) };
    let mut status = 0i32;
    loop {
        let r = unsafe { libc::waitpid(pid, &mut status, 0) };
        if r == pid {
            break;
        }
        if r < 0 && std::io::Error::last_os_error().kind() != std::io::ErrorKind::Interrupted {
            break;
        }
    }
    if timed_out {
        return RefResult {
            open: "Diverged".to_string(),
            steps: 0,
            polls: Vec::new(),
            poll_steps: Vec::new(),
            unstable: false,
            budget_sensitive: true,
        };
    }
    match res_from_bytes(&out) {
        Some(r) if libc::WIFEXITED(status) && libc::WEXITSTATUS(status) == 0 => r,
        _ => RefResult {
            open: format!(
                "Aborted(status={:#x}{})",
                status,
                if libc::WIFSIGNALED(status) {
                    format!(" signal={}", libc::WTERMSIG(status))
                } else {
                    String::new()
                }
            ),
            steps: 0,
            polls: vec![],
            poll_steps: vec![],
            unstable: false,
            budget_sensitive: false,
        },
    }
}

fn eval_fresh(req: &Request, keyb: &[u8]) -> RefResult {
    let a = eval_in_child(req, 0x5151_0001);
    if a.budget_sensitive {
        // timed out: no point in waiting for a twin
        return a;
    }
    // every 4th request (by hash of the request) is evaluated a second time under another
    // hash-key stream
    if crate::rng::Fnv::of(keyb) % 4 != 0 {
        return a;
    }
    let b = eval_in_child(req, 0xA3A3_0002_7777);
    let mut r = a.clone();
    if a.open != b.open || a.polls != b.polls {
        // a difference that consists of one side running into the step budget is not
        // instability of the answer: a library may legitimately do a varying amount of work
        // (randomised self-checks, caches); such a request is marked budget-sensitive and a
        // `Diverged` on either side is then never held against the tree
        let cut = |x: &RefResult| x.open == "Diverged" || x.polls.iter().any(|p| p == "Diverged");
        if cut(&a) != cut(&b) || (cut(&a) && cut(&b)) {
            r.budget_sensitive = true;
            if cut(&a) && !cut(&b) {
                r = b.clone();
                r.budget_sensitive = true;
            }
        } else {
            r.unstable = true;
            r.open = format!("{} <<UNSTABLE vs>> {}", a.open, b.open);
        }
    }
    r
}

// ---------- forker ----------

/// `sim forker`: reads requests on stdin, evaluates each in pristine forked children,
/// writes the answer on stdout. Keeps no memo, so its address space stays tiny and
/// fork() stays cheap however long the check runs.
pub fn forker_main() -> ! {
    crate::quiet_panics();
    crate::hook::install();
    hashkeys::install();
    // main-thread stack may grow to 64 MiB (simulated threads get 16 MiB)
    unsafe {
        let mut cur = libc::rlimit { rlim_cur: 0, rlim_max: 0 };
        if libc::getrlimit(libc::RLIMIT_STACK, &mut cur) == 0 {
            let want = libc::rlimit {
                rlim_cur: (64u64 << 20).min(cur.rlim_max),
                rlim_max: cur.rlim_max,
            };
            libc::setrlimit(libc::RLIMIT_STACK, &want);
        }
    }
    let stdin = std::io::stdin();
    let stdout = std::io::stdout();
    let mut inp = stdin.lock();
    let mut out = stdout.lock();
    loop {
        let fields = match read_msg(&mut inp) {
            Ok(Some(f)) => f,
            _ => std::process::exit(0),
        };
        let mut keyb = Vec::new();
        for f in &fields {
            put_field(&mut keyb, f);
        }
        let ans = match fields_req(&fields) {
            Some(req) => {
                let t0 = std::time::Instant::now();
                let r = eval_fresh(&req, &keyb);
                if std::env::var_os("SIM_REF_TRACE").is_some() {
                    eprintln!(
                        "REF {:?}us steps={} {}",
                        t0.elapsed().as_micros(),
                        r.steps + r.poll_steps.iter().sum::<u64>(),
                        req.show()
                    );
                }
                res_to_bytes(&r)
            }
            None => res_to_bytes(&RefResult {
                open: "Aborted(bad request)".into(),
                steps: 0,
                polls: vec![],
                poll_steps: vec![],
                unstable: false,
            budget_sensitive: false,
            }),
        };
        if write_msg(&mut out, &[&ans]).is_err() {
            std::process::exit(0);
        }
    }
}

// ---------- server ----------

pub fn serve(sock_path: &str) -> ! {
    crate::quiet_panics();
    crate::hook::install();
    hashkeys::install();
    // the memo lives here; the forking happens in a separate small process
    let exe = std::env::current_exe().expect("current_exe");
    let mut forker = std::process::Command::new(exe)
        .arg("forker")
        .stdin(std::process::Stdio::piped())
        .stdout(std::process::Stdio::piped())
        .spawn()
        .expect("spawn forker");
    let mut fk_in = forker.stdin.take().unwrap();
    let mut fk_out = forker.stdout.take().unwrap();
    let _ = std::fs::remove_file(sock_path);
    let listener = UnixListener::bind(sock_path).expect("bind reference socket");
    let mut memo: HashMap<Vec<u8>, Vec<u8>> = HashMap::new();
    let mut clients: Vec<UnixStream> = Vec::new();
    use std::os::unix::io::AsRawFd;
    loop {
        // single-threaded multiplexing over the listener and all connected workers
        let mut fds: Vec<libc::pollfd> = Vec::with_capacity(clients.len() + 1);
        fds.push(libc::pollfd {
            fd: listener.as_raw_fd(),
            events: libc::POLLIN,
            revents: 0,
        });
        for c in &clients {
            fds.push(libc::pollfd {
                fd: c.as_raw_fd(),
                events: libc::POLLIN,
                revents: 0,
            });
        }
        let n = unsafe { libc::poll(fds.as_mut_ptr(), fds.len() as libc::nfds_t, -1) };
        if n < 0 {
            if std::io::Error::last_os_error().kind() == std::io::ErrorKind::Interrupted {
                continue;
            }
            std::process::exit(0);
        }
        let mut dead: Vec<usize> = Vec::new();
        for (i, pfd) in fds.iter().enumerate().skip(1) {
            if pfd.revents == 0 {
                continue;
            }
            let stream = &mut clients[i - 1];
            let fields = match read_msg(stream) {
                Ok(Some(f)) => f,
                _ => {
                    dead.push(i - 1);
                    continue;
                }
            };
            if fields.len() == 1 && fields[0] == b"quit" {
                let _ = std::fs::remove_file(sock_path);
                std::process::exit(0);
            }
            let mut keyb = Vec::new();
            for f in &fields {
                put_field(&mut keyb, f);
            }
            let (ans, miss) = if let Some(a) = memo.get(&keyb) {
                (a.clone(), false)
            } else {
                let refs: Vec<&[u8]> = fields.iter().map(|f| f.as_slice()).collect();
                let a = match write_msg(&mut fk_in, &refs)
                    .and_then(|_| read_msg(&mut fk_out))
                {
                    Ok(Some(mut ans)) if !ans.is_empty() => ans.swap_remove(0),
                    _ => {
                        eprintln!("reference lane: forker process failed");
                        std::process::exit(2);
                    }
                };
                // large-style requests (haystacks of many KB) are not memoised: they hardly
                // ever recur across runs and would only grow this process
                if keyb.len() <= 4096 {
                    memo.insert(keyb, a.clone());
                }
                (a, true)
            };
            if write_msg(stream, &[&ans, &[miss as u8]]).is_err() {
                dead.push(i - 1);
            }
        }
        for d in dead.into_iter().rev() {
            clients.remove(d);
        }
        if fds[0].revents != 0 {
            if let Ok((stream, _)) = listener.accept() {
                clients.push(stream);
            }
        }
    }
}

// ---------- client ----------

pub struct RefClient {
    streams: Vec<UnixStream>,
    memo: HashMap<Request, Arc<RefResult>>,
    pub requests: u64,
    pub misses: u64,
}

impl RefClient {
    /// `socks`: comma-separated list of lane sockets; a request goes to the lane selected
    /// by its hash, so every distinct request is evaluated once for all workers.
    pub fn connect(socks: &str) -> std::io::Result<RefClient> {
        let mut streams = Vec::new();
        for sock_path in socks.split(',').filter(|s| !s.is_empty()) {
            let mut last = None;
            let mut ok = None;
            for _ in 0..400 {
                match UnixStream::connect(sock_path) {
                    Ok(stream) => {
                        ok = Some(stream);
                        break;
                    }
                    Err(e) => last = Some(e),
                }
                std::thread::sleep(std::time::Duration::from_millis(10));
            }
            match ok {
                Some(s) => streams.push(s),
                None => return Err(last.unwrap()),
            }
        }
        if streams.is_empty() {
            return Err(std::io::Error::new(
                std::io::ErrorKind::InvalidInput,
                "no reference lanes given",
            ));
        }
        Ok(RefClient {
            streams,
            memo: HashMap::new(),
            requests: 0,
            misses: 0,
        })
    }

    pub fn get(&mut self, req: &Request) -> Arc<RefResult> {
        self.requests += 1;
        if let Some(r) = self.memo.get(req) {
            return r.clone();
        }
        let fields = req_fields(req);
        let mut h = crate::rng::Fnv::default();
        for f in &fields {
            h.bytes(f);
            h.bytes(&[0xff]);
        }
        let lane = (h.0 % self.streams.len() as u64) as usize;
        let refs: Vec<&[u8]> = fields.iter().map(|f| f.as_slice()).collect();
        let stream = &mut self.streams[lane];
        write_msg(stream, &refs).expect("reference server write");
        let ans = read_msg(stream)
            .expect("reference server read")
            .expect("reference server closed");
        let res = res_from_bytes(&ans[0]).expect("reference answer parse");
        if ans.get(1).and_then(|m| m.first()).copied() == Some(1) {
            self.misses += 1;
        }
        let res = Arc::new(res);
        self.memo.insert(req.clone(), res.clone());
        res
    }
}
