//! The check itself: batches of seeded runs on worker processes, determinism
//! re-execution, history checks, minimisation + replay files, evidence.

use crate::minimise;
use crate::model::*;
use crate::pool::{run_batch, Lanes};
use crate::rng::{mix, splitmix64};
use crate::worker::Job;
use serde_json::json;
use std::collections::{BTreeMap, HashSet};
use std::sync::{Arc, Mutex};
use std::time::{Duration, Instant};

pub const DENSE_BATCH: usize = 100;

pub struct Tier {
    pub name: &'static str,
    pub dense_runs: usize,
    pub soak_runs: usize,
    pub runs: usize,
    pub batch: usize,
    pub workers: usize,
    pub redo_batches: usize,
    pub redo_workers_alt: usize,
    pub wall_cap: Duration,
}

pub fn tier(name: &str) -> Tier {
    let cores = std::thread::available_parallelism()
        .map(|n| n.get())
        .unwrap_or(8)
        .clamp(2, 16);
    match name {
        "thorough" => Tier {
            name: "thorough",
            dense_runs: env_usize("VERIF_DENSE_RUNS", 200_000),
            soak_runs: env_usize("VERIF_SOAK_RUNS", 320),
            runs: env_usize("VERIF_RUNS", 1_000_000),
            batch: 600,
            workers: cores,
            redo_batches: env_usize("VERIF_REDO_BATCHES", 40),
            redo_workers_alt: 4,
            wall_cap: Duration::from_secs(env_usize("VERIF_WALL_CAP_S", 1500) as u64),
        },
        _ => Tier {
            name: "quick",
            dense_runs: env_usize("VERIF_DENSE_RUNS", 24_000),
            soak_runs: env_usize("VERIF_SOAK_RUNS", 48),
            runs: env_usize("VERIF_RUNS", 100_000),
            batch: 400,
            workers: cores,
            redo_batches: env_usize("VERIF_REDO_BATCHES", 6),
            redo_workers_alt: 4,
            wall_cap: Duration::from_secs(env_usize("VERIF_WALL_CAP_S", 240) as u64),
        },
    }
}

fn env_usize(k: &str, d: usize) -> usize {
    std::env::var(k)
        .ok()
        .and_then(|v| v.parse().ok())
        .unwrap_or(d)
}

/// The job list of batch `k`: one cold-start job (block-table heavy flavour) followed by
/// `batch` seeds of the main sequence.
pub fn batch_jobs(base: u64, k: usize, batch: usize, total: usize) -> Vec<Job> {
    batch_jobs_x(base, k, batch, total, false)
}

/// Dense-stage batches use their own seed family and run in the dense build.
pub fn dense_base(base: u64) -> u64 {
    mix(base, 0xDE45_E000)
}

pub fn batch_jobs_x(base: u64, k: usize, batch: usize, total: usize, dense: bool) -> Vec<Job> {
    let mut jobs = Vec::with_capacity(batch + 1);
    jobs.push(Job {
        seed: mix(base, 0xC01D_0000 + k as u64),
        flavor: "b".into(),
        dense,
        ..Default::default()
    });
    let lo = k * batch;
    let hi = ((k + 1) * batch).min(total);
    for i in lo..hi {
        let mut st = mix(base, i as u64);
        jobs.push(Job {
            seed: splitmix64(&mut st),
            flavor: "n".into(),
            dense,
            ..Default::default()
        });
    }
    jobs
}

#[derive(Default)]
pub struct Agg {
    pub runs: u64,
    pub by_policy: BTreeMap<String, u64>,
    pub by_threads: BTreeMap<usize, u64>,
    pub ops: u64,
    pub compared: u64,
    pub steps: u64,
    pub decisions: u64,
    pub switches: u64,
    pub intra: u64,
    pub runs_with_intra: u64,
    pub skipped: u64,
    pub crashes_planned: u64,
    pub crashes_fired: u64,
    pub panicked: u64,
    pub diverged: u64,
    pub errors: u64,
    pub same_obj_overlap: u64,
    pub runs_same_obj_overlap: u64,
    pub live_iter_overlap: u64,
    pub addr_reuse: u64,
    pub migrations: u64,
    pub polls_after_end: u64,
    pub abandoned_iters: u64,
    pub forgotten_iters: u64,
    pub debug_fmts: u64,
    pub recompiles: u64,
    pub stalled: u64,
    pub thread_exits_joined: u64,
    pub late_starts: u64,
    pub library_yields: u64,
    pub clock_jumps: u64,
    pub panicking_calls: u64,
    pub at_exit_calls: u64,
    pub iters_moved: u64,
    pub env_reads: u64,
    pub env_perturbed: u64,
    pub cpu_reads: u64,
    pub skipped_incomplete_reference: u64,
    pub large_input_outcomes: u64,
    pub env_keys: Vec<String>,
    pub env_plan_runs: u64,
    pub edges: u64,
    pub edge_offers: u64,
    pub cold_runs: u64,
    pub cold_init_by_thread: BTreeMap<i64, u64>,
    pub ext_blocked: u64,
    pub ref_requests: u64,
    pub ref_misses: u64,
    pub fault_free_runs: u64,
    pub fault_free_compared: u64,
    pub probes: BTreeMap<u32, u64>,
    pub distinct_logs: HashSet<u64>,
    pub distinct_ileave: HashSet<u64>,
    pub distinct_ileave_intra: HashSet<u64>,
    pub path_impure: u64,
    pub path_impure_examples: Vec<String>,
    pub pooled_runs: u64,
    pub inconclusive: Vec<String>,
    pub harness_errors: Vec<String>,
    pub violating: Vec<(usize, usize, RunRecord)>, // (batch, index in batch, record)
    pub samples: Vec<serde_json::Value>,
}

impl Agg {
    pub fn add(&mut self, batch: usize, idx: usize, r: &RunRecord) {
        self.runs += 1;
        *self.by_policy.entry(policy_class(&r.policy)).or_insert(0) += 1;
        *self.by_threads.entry(r.threads).or_insert(0) += 1;
        self.ops += r.ops as u64;
        self.compared += r.compared;
        self.steps += r.steps;
        self.decisions += r.decisions as u64;
        self.switches += r.switches;
        self.intra += r.intra_call_preemptions;
        if r.intra_call_preemptions > 0 {
            self.runs_with_intra += 1;
            self.distinct_ileave_intra.insert(r.ileave_hash);
        }
        if r.threads > 1 && r.switches > r.threads as u64 {
            self.distinct_ileave.insert(r.ileave_hash);
        }
        if r.compared >= 3 {
            self.distinct_logs.insert(r.log_hash);
        }
        self.skipped += r.skipped_no_object;
        self.crashes_planned += r.crashes_planned;
        self.crashes_fired += r.crashes_fired;
        self.panicked += r.panicked;
        self.diverged += r.diverged;
        self.errors += r.errors;
        self.same_obj_overlap += r.same_obj_overlap;
        if r.same_obj_overlap > 0 {
            self.runs_same_obj_overlap += 1;
        }
        self.live_iter_overlap += r.live_iter_overlap;
        self.addr_reuse += r.addr_reuse;
        self.migrations += r.migrations;
        self.polls_after_end += r.polls_after_end;
        self.abandoned_iters += r.abandoned_iters;
        self.forgotten_iters += r.forgotten_iters;
        self.debug_fmts += r.debug_fmts;
        self.recompiles += r.recompiles;
        self.stalled += r.stalled;
        self.thread_exits_joined += r.thread_exits_joined;
        self.late_starts += r.late_starts;
        self.library_yields += r.library_yields;
        self.clock_jumps += r.clock_jumps;
        self.panicking_calls += r.panicking_calls;
        self.at_exit_calls += r.at_exit_calls;
        self.iters_moved += r.iters_moved;
        self.env_reads += r.env_reads;
        self.env_perturbed += r.env_perturbed;
        self.cpu_reads += r.cpu_reads;
        self.skipped_incomplete_reference += r.skipped_incomplete_reference;
        self.large_input_outcomes += r.large_input_outcomes;
        for k in &r.env_keys {
            if self.env_keys.len() < 16 && !self.env_keys.contains(k) {
                self.env_keys.push(k.clone());
            }
        }
        self.edges += r.edges;
        self.edge_offers += r.edge_offers;
        if r.cold {
            self.cold_runs += 1;
            *self.cold_init_by_thread.entry(r.cold_init_thread).or_insert(0) += 1;
        }
        self.ext_blocked += r.ext_blocked;
        self.ref_requests += r.ref_requests;
        self.ref_misses += r.ref_misses;
        if r.crashes_planned == 0 && r.threads == 1 {
            self.fault_free_runs += 1;
            self.fault_free_compared += r.compared;
        }
        for (s, c) in &r.probes {
            *self.probes.entry(*s).or_insert(0) += *c;
        }
        self.path_impure += r.path_impure;
        for e in &r.path_impure_examples {
            if self.path_impure_examples.len() < 8 {
                self.path_impure_examples.push(format!("seed={} {}: {}", r.seed, r.flavor, e));
            }
        }
        if r.pooled_threads {
            self.pooled_runs += 1;
        }
        for i in &r.inconclusive {
            if self.inconclusive.len() < 50 {
                self.inconclusive.push(format!("seed={} {}: {}", r.seed, r.flavor, i));
            }
        }
        if let Some(e) = &r.harness_error {
            self.harness_errors
                .push(format!("seed={} {}: {}", r.seed, r.flavor, e));
        }
        if !r.violations.is_empty() {
            self.violating.push((batch, idx, r.clone()));
        }
    }
}

fn policy_class(p: &str) -> String {
    p.split('(').next().unwrap_or(p).to_string()
}

pub fn site_name(s: u32) -> &'static str {
    match s {
        1 => "API_NEW",
        2 => "API_IS_MATCH",
        3 => "API_REPLACE_ALL",
        4 => "API_TOKENIZE",
        5 => "API_ANALYZE",
        6 => "TOKEN_NEXT",
        7 => "ANALYZE_NEXT",
        10 => "MATCHES",
        11 => "MATCHES_BOL_SEEK",
        12 => "MATCHES_PREFIX",
        13 => "MATCHES_FIRSTSET",
        14 => "MATCHES_SCAN",
        15 => "MATCH_AT",
        16 => "PRECOND",
        17 => "REPLACE_LOOP",
        18 => "REPLACE_MULTIDIGIT",
        20 => "ST_BACKREF_GET",
        21 => "ST_BACKREF_SET",
        22 => "ST_ANCHORED",
        23 => "ST_PAREN_GET",
        24 => "ST_PAREN_SET",
        25 => "ST_PAREN_COUNT",
        26 => "ST_CLEAR_BEYOND",
        27 => "ST_SNAPSHOT",
        28 => "ST_RESTORE",
        29 => "BACKREF_ALLOC",
        30 => "HIST_INS",
        31 => "HIST_DUP",
        40 => "SEQ_NEXT",
        41 => "CHOICE_NEXT",
        42 => "CAPTURE_NEXT",
        43 => "GREEDY_REPEAT",
        44 => "RELUCTANT_REPEAT",
        45 => "RELUCTANT_FIXED",
        46 => "GREEDY_FIXED",
        47 => "UNAMBIGUOUS",
        48 => "BACKREF_MATCH",
        49 => "FORCE_PROGRESS",
        50 => "ANALYZE_ZERO_LEN_GROUP",
        51 => "OP_ATOM",
        52 => "OP_CHARCLASS",
        53 => "OP_BOL",
        54 => "OP_EOL",
        55 => "OP_END_PROGRAM",
        56 => "CASE_BLIND",
        57 => "CAPTURE_ENTER",
        58 => "CHOICE_BRANCH",
        60 => "BLOCK_LOOKUP_CALL",
        61 => "BLOCK_TABLE_INIT",
        70 => "PARSE_CLASS",
        71 => "PARSE_ATOM",
        72 => "PARSE_BRANCH",
        _ => "?",
    }
}

/// Probes that must be non-zero in the thorough tier (DESIGN §3.11).
const REQUIRED_PROBES: &[u32] = &[
    1, 2, 3, 4, 5, 6, 7, 10, 11, 12, 13, 14, 15, 16, 17, 18, 20, 21, 22, 23, 24, 25, 26, 27, 28,
    29, 30, 31, 40, 41, 42, 43, 44, 45, 46, 47, 48, 49, 50, 51, 52, 53, 54, 55, 56, 57, 58, 60, 61,
    70, 71, 72,
];

#[derive(Clone, Debug)]
pub struct RunSig {
    pub log: u64,
    pub sched: u64,
    pub nondet: bool,
    pub trace: Option<Vec<(u8, u64)>>,
    pub callsigs: Option<Vec<(u64, u64)>>,
    pub workload: Option<Vec<(u64, u64)>>,
}

/// Did the library take a different path for the same request in the two executions
/// (or within one of them)?
fn path_differs(a: &RunSig, b: &RunSig) -> Option<bool> {
    // first: did any individual call (same thread, same operation, same request) do a
    // different amount of work or take another path in the two executions?
    if let (Some(wa), Some(wb)) = (a.workload.as_ref(), b.workload.as_ref()) {
        let ma: std::collections::HashMap<u64, u64> = wa.iter().copied().collect();
        for (k, v) in wb {
            if let Some(x) = ma.get(k) {
                if x != v {
                    return Some(true);
                }
            }
        }
    }
    let (ca, cb) = (a.callsigs.as_ref()?, b.callsigs.as_ref()?);
    let mut m: std::collections::HashMap<u64, u64> = std::collections::HashMap::new();
    for (r, s) in ca.iter().chain(cb.iter()) {
        match m.get(r) {
            Some(old) if old != s => return Some(true),
            Some(_) => {}
            None => {
                m.insert(*r, *s);
            }
        }
    }
    Some(false)
}

/// Kind of the first event at which two executions of one run diverge.
fn first_divergence(a: &RunSig, b: &RunSig) -> Option<(usize, u8)> {
    let (ta, tb) = (a.trace.as_ref()?, b.trace.as_ref()?);
    for (i, (x, y)) in ta.iter().zip(tb.iter()).enumerate() {
        if x != y {
            return Some((i, x.0));
        }
    }
    if ta.len() != tb.len() {
        return Some((ta.len().min(tb.len()), b'o'));
    }
    None
}

struct Work {
    next: usize,
    nbatches: usize,
}

pub struct Explore {
    pub agg: Agg,
    pub batch_hashes: BTreeMap<usize, Vec<Option<RunSig>>>,
    pub batches_done: usize,
    pub hit_wall_cap: bool,
}

/// Execute batches `0..nbatches` on `workers` concurrent worker processes.
pub fn explore(
    lanes: &Lanes,
    base: u64,
    t: &Tier,
    nbatches: usize,
    only: Option<&[usize]>,
    trace_batches: &[usize],
    workers: usize,
    deadline: Instant,
    dense: bool,
    total_runs: usize,
) -> Explore {
    let list: Vec<usize> = match only {
        Some(l) => l.to_vec(),
        None => (0..nbatches).collect(),
    };
    let work = Arc::new(Mutex::new(Work {
        next: 0,
        nbatches: list.len(),
    }));
    let out = Arc::new(Mutex::new(Explore {
        agg: Agg::default(),
        batch_hashes: BTreeMap::new(),
        batches_done: 0,
        hit_wall_cap: false,
    }));
    let mut handles = Vec::new();
    for w in 0..workers {
        let work = work.clone();
        let out = out.clone();
        let list = list.clone();
        let _ = w;
        let sock = lanes.all();
        // dense batches are short: more worker processes, hence more cold starts, in the
        // build that can switch threads inside one-time initialisations
        let (batch, runs) = (if dense { DENSE_BATCH } else { t.batch }, total_runs);
        let trace_batches: Vec<usize> = trace_batches.to_vec();
        handles.push(std::thread::spawn(move || loop {
            let k = {
                let mut g = work.lock().unwrap();
                if g.next >= g.nbatches {
                    break;
                }
                if Instant::now() > deadline {
                    out.lock().unwrap().hit_wall_cap = true;
                    break;
                }
                g.next += 1;
                list[g.next - 1]
            };
            let mut jobs = batch_jobs_x(base, k, batch, runs, dense);
            if trace_batches.contains(&k) {
                for j in jobs.iter_mut() {
                    j.want_trace = true;
                }
            }
            let mut pending: Vec<(usize, Job)> = jobs.into_iter().enumerate().collect();
            let mut hashes: Vec<Option<RunSig>> = vec![None; pending.len()];
            let mut first_attempt = true;
            let mut attempts = 0;
            while !pending.is_empty() && attempts < 6 {
                attempts += 1;
                let js: Vec<Job> = pending.iter().map(|(_, j)| j.clone()).collect();
                let res = run_batch(&sock, &js, Duration::from_secs(45));
                let mut o = out.lock().unwrap();
                let mut rest = Vec::new();
                let mut last_poisoned = false;
                let mut first_missing = true;
                for ((idx, job), rec) in pending.iter().zip(res.records.iter()) {
                    match rec {
                        Some(r) => {
                            o.agg.add(k, *idx, r);
                            if first_attempt {
                                hashes[*idx] = Some(RunSig {
                                    log: r.log_hash,
                                    sched: r.sched_hash,
                                    nondet: r.nondet_window,
                                    trace: r.trace.clone(),
                                    callsigs: r.callsigs.clone(),
                                    workload: r.workload.clone(),
                                });
                            }
                            last_poisoned = r.deadlock
                                || r.harness_error.is_some()
                                || r.inconclusive.iter().any(|s| s.starts_with("wall-clock"));
                        }
                        None => {
                            if first_missing && !last_poisoned {
                                first_missing = false;
                                let msg = format!(
                                    "seed={} {}: worker died or stalled on this run ({})",
                                    job.seed,
                                    job.flavor,
                                    res.note.clone().unwrap_or_default()
                                );
                                o.agg.inconclusive.push(msg);
                            } else {
                                first_missing = false;
                                rest.push((*idx, job.clone()));
                            }
                        }
                    }
                }
                drop(o);
                pending = rest;
                first_attempt = false;
            }
            let mut o = out.lock().unwrap();
            o.batch_hashes.insert(k, hashes);
            o.batches_done += 1;
        }));
    }
    for h in handles {
        let _ = h.join();
    }
    Arc::try_unwrap(out)
        .ok()
        .expect("explore result still shared")
        .into_inner()
        .unwrap()
}

pub struct Outcome {
    pub exit: i32,
}

pub fn check(tier_name: &str, base_seed: u64) -> Outcome {
    let t0 = Instant::now();
    let t = tier(tier_name);
    let deadline = t0 + t.wall_cap;
    println!(
        "C18 simulation: tier={} VERIF_SEED={} runs={} batch={} workers={}",
        t.name, base_seed, t.runs, t.batch, t.workers
    );
    let seam_clock = crate::clock::selftest();
    let seam_env = crate::envseam::selftest();
    let seam_cpus = crate::envseam::selftest_cpus();
    if !(seam_clock && seam_env && seam_cpus) {
        println!(
            "note: seam self-test: clock={} environment={} cpu-count={} (a seam that does not work only means the corresponding fault kind is not injected)",
            seam_clock, seam_env, seam_cpus
        );
    }
    let iter_send = crate::probe::iter_send_probe();
    let probe = crate::probe::send_sync_probe();
    println!(
        "static facet: Regex: Send={} Sync={}; iterators Send: tokenize={} analyze={}",
        probe.0, probe.1, iter_send.0, iter_send.1
    );
    let lanes = Lanes::start(env_usize("VERIF_LANES", t.workers), false);
    let nbatches = t.runs.div_ceil(t.batch);
    // batches that will be re-executed for the determinism self-check (chosen up front so
    // that their first execution already records divergence checkpoints)
    let mut redo: Vec<usize> = Vec::new();
    {
        let stride = (nbatches / t.redo_batches.max(1)).max(1);
        let mut i = 0;
        while i < nbatches && redo.len() < t.redo_batches {
            redo.push(i);
            i += stride;
        }
    }
    let ex = explore(&lanes, base_seed, &t, nbatches, None, &redo, t.workers, deadline, false, t.runs);
    let explore_s = t0.elapsed().as_secs_f64();
    println!(
        "explored {} runs in {:.1}s ({} batches{})",
        ex.agg.runs,
        explore_s,
        ex.batches_done,
        if ex.hit_wall_cap {
            ", stopped by wall-clock cap"
        } else {
            ""
        }
    );

    // ---- soak stage: long histories on few objects (call counters across 2^8 / 2^16)
    let s0 = Instant::now();
    let mut ex = ex;
    let mut soak_violating: Vec<(Job, RunRecord)> = Vec::new();
    let mut soak_runs_done = 0u64;
    let mut soak_calls = 0u64;
    {
        let jobs: Vec<Job> = (0..t.soak_runs)
            .map(|i| Job {
                seed: mix(base_seed, 0x50A4_0000 + i as u64),
                flavor: "s".into(),
                ..Default::default()
            })
            .collect();
        let queue = Arc::new(Mutex::new(jobs));
        let results: Arc<Mutex<Vec<(Job, Option<RunRecord>, Option<String>)>>> =
            Arc::new(Mutex::new(Vec::new()));
        let mut hs = Vec::new();
        for _ in 0..t.workers {
            let queue = queue.clone();
            let results = results.clone();
            let sock = lanes.all();
            hs.push(std::thread::spawn(move || loop {
                let job = match queue.lock().unwrap().pop() {
                    Some(j) => j,
                    None => break,
                };
                let res = run_batch(&sock, std::slice::from_ref(&job), Duration::from_secs(200));
                let rec = res.records.into_iter().next().flatten();
                results.lock().unwrap().push((job, rec, res.note));
            }));
        }
        for h in hs {
            let _ = h.join();
        }
        let mut results = std::mem::take(&mut *results.lock().unwrap());
        results.sort_by_key(|(j, _, _)| j.seed);
        for (job, rec, note) in results {
            match rec {
                Some(r) => {
                    soak_runs_done += 1;
                    soak_calls += r.soak_calls;
                    ex.agg.add(usize::MAX, 0, &r);
                    if !r.violations.is_empty() {
                        soak_violating.push((job, r));
                    }
                }
                None => ex.agg.inconclusive.push(format!(
                    "soak seed={}: worker died or stalled ({})",
                    job.seed,
                    note.unwrap_or_default()
                )),
            }
        }
    }
    // soak records were added to the aggregate with a pseudo batch id: take them out of the
    // batch-indexed list (they are handled through soak_violating)
    ex.agg.violating.retain(|(k, _, _)| *k != usize::MAX);
    let ex = ex;
    println!(
        "soak stage: {} runs, {} calls on long-lived objects, {:.1}s",
        soak_runs_done,
        soak_calls,
        s0.elapsed().as_secs_f64()
    );

    // ---- dense stage: the same kind of runs in the dense build, where every basic-block
    // edge of every target crate is a possible scheduling point (windows without hook sites)
    let d0s = Instant::now();
    let dense_available = std::path::Path::new(crate::pool::DENSE_EXE).exists();
    let dense_nb = t.dense_runs.div_ceil(DENSE_BATCH);
    let dense_redo: Vec<usize> = (0..dense_nb.min(env_usize("VERIF_DENSE_REDO_BATCHES", 8))).collect();
    let exd = if dense_available && t.dense_runs > 0 {
        Some(explore(
            &lanes,
            dense_base(base_seed),
            &t,
            dense_nb,
            None,
            &dense_redo,
            t.workers,
            deadline + Duration::from_secs(600),
            true,
            t.dense_runs,
        ))
    } else {
        None
    };
    let dense_wall = d0s.elapsed().as_secs_f64();
    if let Some(d) = &exd {
        println!(
            "dense stage: {} runs, {} basic-block edges inside calls, {} offered to the scheduler, {} intra-call preemptions, {:.1}s",
            d.agg.runs,
            d.agg.edges,
            d.agg.edge_offers,
            d.agg.intra,
            dense_wall
        );
    } else {
        println!("dense stage: not run (dense build not available)");
    }

    // ---- determinism self-check: re-execute whole batches in other worker processes,
    // on other reference lanes, and (second pass) with another worker count
    let mut harness_errors: Vec<String> = ex.agg.harness_errors.clone();
    redo.retain(|k| ex.batch_hashes.contains_key(k));
    let mut redo_runs = 0u64;
    let mut redo_mismatch_outcome = 0u64;
    let mut redo_nondet_skipped = 0u64;
    let mut path_nondeterminism = 0u64;
    let mut dense_edge_nondeterminism = 0u64;
    let mut path_nondet_examples: Vec<String> = Vec::new();
    let mut extra_violating: Vec<(usize, usize, RunRecord)> = Vec::new();
    let d0 = Instant::now();
    struct Pass<'a> {
        pass: usize,
        first: &'a Explore,
        base: u64,
        dense: bool,
        total: usize,
        nb: usize,
        workers: usize,
        subset: Vec<usize>,
    }
    let mut passes = vec![
        Pass {
            pass: 0,
            first: &ex,
            base: base_seed,
            dense: false,
            total: t.runs,
            nb: nbatches,
            workers: t.workers,
            subset: redo.clone(),
        },
        Pass {
            pass: 1,
            first: &ex,
            base: base_seed,
            dense: false,
            total: t.runs,
            nb: nbatches,
            workers: t.redo_workers_alt,
            subset: redo.iter().copied().take((redo.len() / 2).max(1)).collect(),
        },
    ];
    if let Some(d) = &exd {
        passes.push(Pass {
            pass: 2,
            first: d,
            base: dense_base(base_seed),
            dense: true,
            total: t.dense_runs,
            nb: dense_nb,
            workers: t.workers,
            subset: dense_redo
                .iter()
                .copied()
                .filter(|k| d.batch_hashes.contains_key(k))
                .collect(),
        });
    }
    for p in passes {
        let Pass {
            pass,
            first,
            base,
            dense,
            total,
            nb,
            workers,
            subset,
        } = p;
        if subset.is_empty() {
            continue;
        }
        let ex2 = explore(
            &lanes,
            base,
            &t,
            nb,
            Some(&subset),
            &subset,
            workers,
            deadline + Duration::from_secs(120),
            dense,
            total,
        );
        harness_errors.extend(ex2.agg.harness_errors.iter().cloned());
        for (k, h2) in &ex2.batch_hashes {
            let h1 = match first.batch_hashes.get(k) {
                Some(h) => h,
                None => continue,
            };
            for (i, (a, b)) in h1.iter().zip(h2.iter()).enumerate() {
                if let (Some(a), Some(b)) = (a, b) {
                    if a.nondet || b.nondet {
                        // an externally blocked thread opened a window of real concurrency
                        // (DESIGN §3.4): such runs are not expected to replay bit for bit
                        redo_nondet_skipped += 1;
                        continue;
                    }
                    redo_runs += 1;
                    if a.log != b.log || a.sched != b.sched {
                        let viol1 = first.agg.violating.iter().any(|(bk, bi, _)| bk == k && *bi == i);
                        let viol2 = ex2.agg.violating.iter().any(|(bk, bi, _)| bk == k && *bi == i);
                        if viol1 || viol2 {
                            // the library misbehaved in at least one execution: reported as
                            // a violation through the normal path
                            redo_mismatch_outcome += 1;
                            continue;
                        }
                        let div = first_divergence(a, b);
                        match path_differs(a, b) {
                            Some(true) => {
                                // same job list, same seeds, and some call took another path
                                // through the library than the same call in the other
                                // execution (all outcomes still equal the reference): the
                                // *library* is history- or address-dependent here. Not a C18
                                // violation by itself (results agree); reported as a warning.
                                path_nondeterminism += 1;
                                if path_nondet_examples.len() < 5 {
                                    path_nondet_examples.push(format!("batch {} job {} (pass {})", k, i, pass));
                                }
                            }
                            _ if dense => {
                                // dense build: every call took the same path at hook-site
                                // granularity and every outcome equals the reference, but an
                                // edge-level scheduling point differed. The library hashes
                                // node *addresses* (zero-length-match memo), so the probe
                                // sequences inside its hash maps — basic-block edges here —
                                // follow the allocator; residual address differences between
                                // two processes (despite ASLR off, no tcache, serialised
                                // thread start) show up as one or two extra edges. Counted and
                                // reported, not an error of the harness.
                                dense_edge_nondeterminism += 1;
                            }
                            _ => harness_errors.push(format!(
                                "determinism: batch {} job {}: two executions differ although every call took the same path through the library; first divergence {:?} (pass {})",
                                k, i, div.map(|(at, kind)| (at, kind as char)), pass
                            )),
                        }
                    }
                }
            }
        }
        if !dense {
            for v in ex2.agg.violating {
                extra_violating.push(v);
            }
        }
    }
    let determinism_s = d0.elapsed().as_secs_f64();
    println!(
        "determinism re-execution: {} runs re-executed in other processes/worker counts, {:.1}s",
        redo_runs, determinism_s
    );
    if ex.agg.env_reads > 0 {
        println!(
            "WARNING: the library read environment variables inside API calls ({} reads: {:?}); {} of them were answered from a perturbation plan",
            ex.agg.env_reads, ex.agg.env_keys, ex.agg.env_perturbed
        );
    }
    if ex.agg.cpu_reads > 0 {
        println!(
            "WARNING: the library asked for the number of CPUs inside API calls ({} queries); in runs with a perturbation plan it was shown 1 to 12 CPUs",
            ex.agg.cpu_reads
        );
    }
    if ex.agg.path_impure > 0 {
        println!(
            "WARNING: {} calls took a different path through the library than the same request earlier in the same process (results equal the reference): e.g. {:?}",
            ex.agg.path_impure, ex.agg.path_impure_examples.iter().take(3).collect::<Vec<_>>()
        );
    }
    if dense_edge_nondeterminism > 0 {
        println!(
            "note: {} re-executed dense runs differed at basic-block-edge level only (address-dependent hashing inside the library); hook-level paths and all outcomes were identical",
            dense_edge_nondeterminism
        );
    }
    if path_nondeterminism > 0 {
        println!(
            "WARNING: {} re-executed runs took a different path inside the library (step counts differ) with identical outcomes: {:?}",
            path_nondeterminism, path_nondet_examples
        );
    }

    // ---- violations: minimise, verify replay, report
    let mut violations_reported = 0usize;
    let mut known_printed = 0usize;
    let known = crate::known::load();
    let mut all_violating = ex.agg.violating.clone();
    for v in extra_violating {
        if !all_violating
            .iter()
            .any(|(k, i, _)| *k == v.0 && *i == v.1)
        {
            all_violating.push(v);
        }
    }
    all_violating.sort_by_key(|(k, i, _)| (*k, *i));
    if !all_violating.is_empty() || !soak_violating.is_empty() {
        println!(
            "runs with at least one mismatch: {} of {} (+ {} soak runs)",
            all_violating.len(),
            ex.agg.runs,
            soak_violating.len()
        );
    }
    let mut replay_paths = Vec::new();
    let mut unconfirmed = Vec::new();
    let max_report = 5;
    let mut seen_signatures: HashSet<String> = HashSet::new();
    for (k, i, rec) in &all_violating {
        if violations_reported >= max_report {
            break;
        }
        let v0 = &rec.violations[0];
        let sig = format!("{}|{}", v0.class, v0.request);
        if let Some(kf) = known.iter().find(|kf| kf.matches(v0)) {
            if seen_signatures.insert(format!("known:{}", kf.id)) {
                println!("KNOWN-FINDING: property=C18 {}", kf.text);
                known_printed += 1;
            }
            continue;
        }
        if !seen_signatures.insert(sig) {
            continue;
        }
        let jobs = batch_jobs(base_seed, *k, t.batch, t.runs);
        let prefix: Vec<Job> = jobs[..*i].to_vec();
        let failing = jobs[*i].clone();
        println!(
            "violation candidate: batch {} job {} seed={} {} class={} {}",
            k, i, rec.seed, rec.flavor, v0.class, v0.request
        );
        match minimise::minimise_and_write(&lanes.all(), &prefix, &failing, rec, nondet(rec)) {
            Some(path) => {
                println!("VIOLATION property=C18 replay={}", path);
                replay_paths.push(path);
                violations_reported += 1;
            }
            None => {
                unconfirmed.push(format!(
                    "seed={} {} class={} {}: did not reproduce 3/3 from its replay file",
                    rec.seed, rec.flavor, v0.class, v0.request
                ));
            }
        }
    }
    if let Some(d) = &exd {
        harness_errors.extend(d.agg.harness_errors.iter().cloned());
        let mut dv = d.agg.violating.clone();
        dv.sort_by_key(|(k, i, _)| (*k, *i));
        if !dv.is_empty() {
            println!(
                "dense stage: runs with at least one mismatch: {} of {}",
                dv.len(),
                d.agg.runs
            );
        }
        for (k, i, rec) in &dv {
            if violations_reported >= max_report {
                break;
            }
            let v0 = &rec.violations[0];
            let sig = format!("{}|{}", v0.class, v0.request);
            if let Some(kf) = known.iter().find(|kf| kf.matches(v0)) {
                if seen_signatures.insert(format!("known:{}", kf.id)) {
                    println!("KNOWN-FINDING: property=C18 {}", kf.text);
                    known_printed += 1;
                }
                continue;
            }
            if !seen_signatures.insert(sig) {
                continue;
            }
            let jobs = batch_jobs_x(dense_base(base_seed), *k, DENSE_BATCH, t.dense_runs, true);
            let prefix: Vec<Job> = jobs[..*i].to_vec();
            let failing = jobs[*i].clone();
            println!(
                "violation candidate (dense build): batch {} job {} seed={} {} class={} {}",
                k, i, rec.seed, rec.flavor, v0.class, v0.request
            );
            match minimise::minimise_and_write(&lanes.all(), &prefix, &failing, rec, nondet(rec)) {
                Some(path) => {
                    println!("VIOLATION property=C18 replay={}", path);
                    replay_paths.push(path);
                    violations_reported += 1;
                }
                None => unconfirmed.push(format!(
                    "dense seed={} {} class={} {}: did not reproduce 3/3 from its replay file",
                    rec.seed, rec.flavor, v0.class, v0.request
                )),
            }
        }
    }
    for (job, rec) in &soak_violating {
        if violations_reported >= max_report {
            break;
        }
        let v0 = &rec.violations[0];
        if let Some(kf) = known.iter().find(|kf| kf.matches(v0)) {
            if seen_signatures.insert(format!("known:{}", kf.id)) {
                println!("KNOWN-FINDING: property=C18 {}", kf.text);
                known_printed += 1;
            }
            continue;
        }
        println!(
            "violation candidate: soak seed={} class={} {}",
            rec.seed, v0.class, v0.request
        );
        match minimise::minimise_and_write(&lanes.all(), &[], job, rec, false) {
            Some(path) => {
                println!("VIOLATION property=C18 replay={}", path);
                replay_paths.push(path);
                violations_reported += 1;
            }
            None => unconfirmed.push(format!(
                "soak seed={} class={} {}: did not reproduce 3/3 from its replay file",
                rec.seed, v0.class, v0.request
            )),
        }
    }
    // violations found by the Miri stage (run by ./check before this binary in the thorough tier)
    let miri = crate::miri_stage::last_summary();
    if let Some(vs) = miri["violations"].as_array() {
        for v in vs {
            if let Some(pth) = v["replay"].as_str() {
                println!(
                    "miri violation: scenario {} seed {} kind {}",
                    v["scenario"], v["seed"], v["kind"]
                );
                println!("VIOLATION property=C18 replay={}", pth);
                replay_paths.push(pth.to_string());
                violations_reported += 1;
            }
        }
    }
    if !(probe.0 && probe.1) {
        let path = minimise::write_probe_replay(probe);
        println!("VIOLATION property=C18 replay={}", path);
        replay_paths.push(path);
        violations_reported += 1;
    }

    // ---- self-check of reach (thorough only): a probe stuck at zero means nothing is claimed
    let mut zero_probes: Vec<&'static str> = Vec::new();
    for s in REQUIRED_PROBES {
        if ex.agg.probes.get(s).copied().unwrap_or(0) == 0 {
            zero_probes.push(site_name(*s));
        }
    }
    let harness_probe_zero: Vec<&str> = [
        ("same_obj_overlap", ex.agg.same_obj_overlap),
        ("intra_call_preemptions", ex.agg.intra),
        ("live_iter_overlap", ex.agg.live_iter_overlap),
        ("migrations", ex.agg.migrations),
        ("polls_after_end", ex.agg.polls_after_end),
        ("abandoned_iters", ex.agg.abandoned_iters),
        ("recompiles", ex.agg.recompiles),
        ("crashes_fired", ex.agg.crashes_fired),
        ("stalled", ex.agg.stalled),
        ("cold_runs", ex.agg.cold_runs),
        ("panicked_outcomes", ex.agg.panicked),
        ("diverged_outcomes", ex.agg.diverged),
    ]
    .iter()
    .filter(|(_, c)| *c == 0)
    .map(|(n, _)| *n)
    .collect();
    if !zero_probes.is_empty() || !harness_probe_zero.is_empty() {
        let msg = format!(
            "reach self-check: probes at zero: {:?} {:?}",
            zero_probes, harness_probe_zero
        );
        println!("{}", msg);
        if t.name == "thorough" {
            harness_errors.push(msg);
        }
    }

    // ---- evidence
    let wall = t0.elapsed().as_secs_f64();
    let a = &ex.agg;
    let probes_named: BTreeMap<String, u64> = a
        .probes
        .iter()
        .map(|(s, c)| (format!("{:02}_{}", s, site_name(*s)), *c))
        .collect();
    let samples = sample_runs(&lanes, base_seed, &t);
    let evidence = json!({
        "property_id": "C18",
        "tier": t.name,
        "seed": base_seed,
        "level": "exploration",
        "wall_s": wall,
        "violations": violations_reported,
        "coverage": {
            "evaluations": a.runs,
            "distinct_nontrivial": a.distinct_logs.len(),
            "rule": "one evaluation = one simulated execution (1-4 caller threads, 1-4 shared Regex objects, <=16 API operations per thread, seeded schedule and fault plan) generated from one integer; distinct = distinct hash of the complete event log (decisions + every call outcome); non-trivial = at least 3 call outcomes were compared with the pristine-process reference",
            "samples": samples,
            "simulated_runs": a.runs,
            "runs_per_hour": (a.runs as f64 / explore_s.max(0.001) * 3600.0) as u64,
            "seeds_per_hour": (a.runs as f64 / explore_s.max(0.001) * 3600.0) as u64,
            "explore_wall_s": explore_s,
            "stopped_by_wall_cap": ex.hit_wall_cap,
            "simulated_time_logical_steps": a.steps,
            "api_operations_scripted": a.ops,
            "call_outcomes_compared_with_reference": a.compared,
            "operations_skipped_no_object": a.skipped,
            "scheduler_decisions": a.decisions,
            "context_switches": a.switches,
            "intra_call_preemptions": a.intra,
            "runs_with_intra_call_preemption": a.runs_with_intra,
            "distinct_interleavings": {
                "measure": "distinct hashes of the sequence of (from-thread, to-thread, site) at context switches, over multi-thread runs",
                "all": a.distinct_ileave.len(),
                "with_intra_call_preemption": a.distinct_ileave_intra.len(),
            },
            "runs_by_policy": a.by_policy,
            "runs_by_thread_count": a.by_threads,
            "fault_free_sequential": { "runs": a.fault_free_runs, "compared": a.fault_free_compared },
            "faults_injected": {
                "F1_preemption_inside_call": a.intra,
                "F2_caller_crash_fired": a.crashes_fired,
                "F2_caller_crash_planned": a.crashes_planned,
                "F3_iterator_abandoned": a.abandoned_iters,
                "F3_iterator_leaked_with_mem_forget": a.forgotten_iters,
                "debug_format_of_live_object": a.debug_fmts,
                "F4_poll_after_exhaustion": a.polls_after_end,
                "F5_drop_and_recompile": a.recompiles,
                "F5_arc_address_reused": a.addr_reuse,
                "F6_hash_key_streams": a.runs,
                "F6_reference_twin_evaluations": "every 4th distinct request is evaluated twice in pristine processes under two key streams",
                "F7_cold_start_runs": a.cold_runs,
                "F7_cold_init_by_thread": a.cold_init_by_thread,
                "F8_calls_on_object_compiled_by_other_thread": a.migrations,
                "F9_stalled_caller": a.stalled,
                "F10_caller_thread_exits_joined_before_token_moves_on": a.thread_exits_joined,
                "F10_late_starter_after_another_thread_exited": a.late_starts,
                "F11_simulated_clock_jumps": a.clock_jumps,
                "library_yield_or_sleep_inside_a_call_turned_into_a_scheduling_point": a.library_yields,
                "F2b_call_made_from_a_destructor_while_the_caller_unwinds": a.panicking_calls,
                "F10b_call_registered_for_thread_local_destructor_at_thread_exit": a.at_exit_calls,
                "F12_environment_reads_by_the_library_inside_calls": a.env_reads,
                "F12_environment_reads_answered_from_the_perturbation_plan": a.env_perturbed,
                "F12_environment_variables_read": a.env_keys,
                "F12_cpu_count_queries_by_the_library_inside_calls": a.cpu_reads,
            },
            "harness_probes": {
                "calls_not_made_because_the_reference_does_not_complete_within_the_step_budget": a.skipped_incomplete_reference,
                "compared_outcomes_of_calls_with_haystacks_of_4096_bytes_or_more": a.large_input_outcomes,
                "calls_overlapping_on_same_object": a.same_obj_overlap,
                "runs_with_same_object_overlap": a.runs_same_obj_overlap,
                "second_live_iterator_on_same_object": a.live_iter_overlap,
                "externally_blocked_events": a.ext_blocked,
            },
            "outcome_kinds": { "panicked": a.panicked, "diverged": a.diverged, "errors": a.errors },
            "site_probes": probes_named,
            "reference": {
                "requests": a.ref_requests,
                "server_misses_evaluated_in_pristine_fork": a.ref_misses,
            },
            "determinism_selfcheck": {
                "runs_reexecuted": redo_runs,
                "batches": redo.len(),
                "worker_counts": [t.workers, t.redo_workers_alt],
                "includes_dense_build_batches": exd.is_some(),
                "dense_runs_whose_edge_level_schedule_differed_with_equal_hook_paths_and_outcomes": dense_edge_nondeterminism,
                "log_hash_mismatches_explained_by_violation": redo_mismatch_outcome,
                "skipped_runs_with_externally_blocked_thread": redo_nondet_skipped,
                "library_path_nondeterminism_same_outcomes": path_nondeterminism,
                "library_path_nondeterminism_examples": path_nondet_examples,
                "wall_s": determinism_s,
            },
            "static_facet": { "send": probe.0, "sync": probe.1 },
            "iterator_types_send": {
                "tokenize_iterator": iter_send.0,
                "analyze_iterator": iter_send.1,
                "live_iterators_handed_to_another_thread": a.iters_moved,
                "note": "handing a live iterator to another thread is only legal (and only done) when its type is Send on the tree under test",
            },
            "seam_selftests": { "clock_gettime_interposed": seam_clock, "getenv_interposed": seam_env, "sched_getaffinity_sysconf_interposed": seam_cpus },
            "path_purity": {
                "explanation": "per call, the sequence of hook sites hit (the path through the library) is hashed; within one worker process the same request must always take the same path. A difference is not a C18 violation (results are compared separately) but shows history- or address-dependent behaviour; it is reported as a warning.",
                "calls_that_took_another_path_than_the_same_request_earlier": a.path_impure,
                "examples": a.path_impure_examples,
            },
            "runs_on_long_lived_caller_threads": a.pooled_runs,
            "dense_stage": match &exd {
                Some(d) => json!({
                    "what": "the same kind of seeded runs executed in a second build of the harness in which LLVM SanitizerCoverage instruments every basic-block edge of every target crate (regexml, icu, ahash, and any code a change adds); inside library calls the first 3 executions of an edge by a thread within a run are always offered to the scheduler as a preemption point, later ones sampled one in 32 (deterministic per-thread generator; first 30000 edges of a call)",
                    "runs": d.agg.runs,
                    "call_outcomes_compared_with_reference": d.agg.compared,
                    "basic_block_edges_inside_calls": d.agg.edges,
                    "edges_offered_to_scheduler": d.agg.edge_offers,
                    "intra_call_preemptions": d.agg.intra,
                    "distinct_interleavings_with_intra_call_preemption": d.agg.distinct_ileave_intra.len(),
                    "inconclusive": d.agg.inconclusive,
                    "wall_s": dense_wall,
                }),
                None => json!({"stage": "not run (dense build not available)"}),
            },
            "soak_stage": {
                "what": "single-thread runs on 4 objects each: probe call A, then d-1 identical calls B, then A again, d in {255,256,257,4096,32768,65534..65537}; every call compared with the reference",
                "runs": soak_runs_done,
                "calls": soak_calls,
            },
            "inconclusive": a.inconclusive,
            "unconfirmed_candidates": unconfirmed,
            "known_findings_printed": known_printed,
            "replay_files": replay_paths,
            "harness_errors": harness_errors,
            "miri": miri,
            "components": {
                "real": ["regexml parser/optimiser/matcher/iterators (built from /repo working tree, feature verif-hooks)", "BLOCK_LOOKUP with std::sync::OnceLock", "icu_casemap / icu_properties / icu_collections with baked data", "ahash hashing code", "std::thread caller threads, thread-local storage", "glibc malloc", "process start (cold state)"],
                "owned_by_simulator": ["the process environment as seen by the library inside calls (getenv defined by the harness executable; the pinned library reads none)", "the clock as seen by caller threads (clock_gettime defined by the harness executable: real time + simulator-owned offset; the pinned library reads no clock)", "which caller thread runs (token scheduler at hook sites and operation boundaries)", "ahash per-map key material (set_random_source) and per-process keys (--cfg fuzzing)", "caller crashes (unwind at a chosen hook step)", "logical clock (hook hits + scheduler events)"],
                "stubbed": [],
                "absent_in_code_base": ["network", "disk", "timers/clocks"],
            },
        },
        "assumptions": [
            "sampling, not proof: a clean batch is evidence only",
            "context switches are possible at hook sites and operation boundaries, in the dense build also at sampled basic-block edges (Miri stage covers other points in the thorough tier); threads the library starts itself are not owned by the scheduler",
            "the reference is the library itself on a fresh object in a pristine forked process; history-independent wrong answers are out of scope of C18; calls whose reference does not complete within the step budget are not made",
            "bounds: <=6 threads, <=8 objects, <=24 operations per thread, <=12 live iterators per thread, haystacks <=160 characters (up to 66 KB in the large style), <=65537 calls on one object, 60000 hook steps per call",
        ],
    });
    let _ = std::fs::create_dir_all("/verif/evidence");
    let tmp = "/verif/evidence/.C18.json.tmp";
    std::fs::write(tmp, serde_json::to_string_pretty(&evidence).unwrap()).expect("write evidence");
    std::fs::rename(tmp, "/verif/evidence/C18.json").expect("rename evidence");
    println!(
        "runs={} compared={} distinct_logs={} intra_call_preemptions={} crashes_fired={} cold={} wall={:.1}s",
        a.runs,
        a.compared,
        a.distinct_logs.len(),
        a.intra,
        a.crashes_fired,
        a.cold_runs,
        wall
    );
    drop(lanes);
    let exit = if violations_reported > 0 {
        1
    } else if !harness_errors.is_empty() {
        for e in harness_errors.iter().take(10) {
            eprintln!("HARNESS-ERROR: {}", e);
        }
        2
    } else if a.runs == 0 {
        eprintln!("HARNESS-ERROR: no run completed");
        2
    } else {
        0
    };
    Outcome { exit }
}

fn nondet(r: &RunRecord) -> bool {
    r.nondet_window
}

/// A few complete run records (with their event logs) for the evidence file.
fn sample_runs(lanes: &Lanes, base: u64, t: &Tier) -> Vec<serde_json::Value> {
    let mut jobs = batch_jobs(base, 0, t.batch.min(6), t.runs);
    jobs.truncate(4);
    for j in jobs.iter_mut() {
        j.log = true;
        j.want_spec = true;
    }
    let res = run_batch(&lanes.all(), &jobs, Duration::from_secs(45));
    res.records
        .into_iter()
        .flatten()
        .map(|r| {
            json!({
                "seed": r.seed, "flavor": r.flavor, "policy": r.policy, "threads": r.threads,
                "scripts": r.spec.as_ref().map(|s| serde_json::to_value(&s.scripts).unwrap()),
                "crashes": r.spec.as_ref().map(|s| serde_json::to_value(&s.crashes).unwrap()),
                "decisions": r.decision_list,
                "event_log": r.log.map(|l| l.lines().map(|s| s.to_string()).collect::<Vec<_>>()),
            })
        })
        .collect()
}
