//! Dense preemption points. In the *dense* build (RUSTFLAGS with LLVM's SanitizerCoverage
//! pass, see `check`) every basic-block edge of every target crate — regexml, its
//! dependencies, and any code a change adds — calls `__sanitizer_cov_trace_pc_guard`.
//! The simulator uses those calls as additional scheduling points inside library calls, so a
//! race whose window contains no hand-placed hook site is still reachable. In the ordinary
//! build the pass is not applied and these functions are never called.

use crate::hook;

/// # Safety
/// Called by instrumented code only.
#[no_mangle]
pub unsafe extern "C" fn __sanitizer_cov_trace_pc_guard(guard: *mut u32) {
    // cheap filter first: only inside a guarded library call on a simulated thread
    if !hook::in_call_fast() {
        return;
    }
    if hook::enter_cb() {
        return;
    }
    hook::on_edge(*guard);
    hook::leave_cb();
}

/// # Safety
/// Called once per module by instrumented code.
#[no_mangle]
pub unsafe extern "C" fn __sanitizer_cov_trace_pc_guard_init(start: *mut u32, stop: *mut u32) {
    // give every guard a process-unique non-zero id (init is called once per module)
    let mut p = start;
    while p < stop {
        if *p == 0 {
            *p = hook::next_guard_id();
        }
        p = p.add(1);
    }
    hook::note_dense_build();
}
