#![recursion_limit = "512"]
mod astgen;
mod clock;
mod controller;
mod corpus;
mod edge;
mod envseam;
mod exec;
mod gen;
mod hashkeys;
mod hook;
mod known;
mod minimise;
mod miri_stage;
mod model;
mod pool;
mod probe;
mod refsrv;
mod rng;
mod run;
mod sched;
mod worker;

/// The library has known panicking inputs; they are call outcomes here, so keep stderr quiet.
pub fn quiet_panics() {
    std::panic::set_hook(Box::new(|_| {}));
}

fn usage() -> ! {
    eprintln!("usage: sim check [--tier quick|thorough] | replay <file> | probe | refsrv <sock> | worker <sock> | local <sock> <seed0> <n> [flavor] [--log]");
    std::process::exit(2);
}

fn main() {
    let args: Vec<String> = std::env::args().collect();
    if args.len() < 2 {
        usage();
    }
    match args[1].as_str() {
        "refsrv" => refsrv::serve(args.get(2).map(|s| s.as_str()).unwrap_or_else(|| usage())),
        "forker" => refsrv::forker_main(),
        "worker" => worker::worker_main(args.get(2).map(|s| s.as_str()).unwrap_or_else(|| usage())),
        "local" => {
            // debugging aid: run seeds in this process against a reference server
            let sock = args.get(2).unwrap_or_else(|| usage());
            let seed0: u64 = args.get(3).and_then(|s| s.parse().ok()).unwrap_or(1);
            let n: u64 = args.get(4).and_then(|s| s.parse().ok()).unwrap_or(1);
            let flavor = args.get(5).cloned().unwrap_or_else(|| "n".into());
            let log = args.iter().any(|a| a == "--log");
            worker::setup_process();
            let refc = std::sync::Arc::new(std::sync::Mutex::new(
                refsrv::RefClient::connect(sock).expect("connect"),
            ));
            let pool = run::CallerPool::new(model::MAX_THREADS);
            let t0 = std::time::Instant::now();
            let mut viol = 0;
            let mut compared = 0; let mut misses = 0; let mut reqs = 0; let mut edges = 0u64; let mut offers = 0u64; let mut intra = 0u64;
            for s in seed0..seed0 + n {
                let job = worker::Job { seed: s, flavor: flavor.clone(), log, want_spec: log, spec: None, want_trace: false, dense: false };
                let o = worker::exec_job(&job, &refc, Some(&pool));
                compared += o.rec.compared; misses += o.rec.ref_misses; reqs += o.rec.ref_requests; edges += o.rec.edges; offers += o.rec.edge_offers; intra += o.rec.intra_call_preemptions;
                if log {
                    if let Some(sp) = &o.rec.spec {
                        println!("{}", serde_json::to_string(sp).unwrap());
                    }
                    print!("{}", o.rec.log.clone().unwrap_or_default());
                }
                if !o.rec.violations.is_empty() || o.rec.harness_error.is_some() {
                    viol += 1;
                    println!("seed {} violations {:?} harness {:?}", s, o.rec.violations, o.rec.harness_error);
                }
                if o.poisoned { println!("poisoned at seed {}", s); break; }
            }
            println!("{} runs, {} compared, {} with violations, {} ref requests {} server misses, {:.2}s; dense={} edges={} offered={} intra-call preemptions={}", n, compared, viol, reqs, misses, t0.elapsed().as_secs_f64(), hook::dense_build(), edges, offers, intra);
        }
        "check" => {
            let mut tier = std::env::var("VERIF_TIER").unwrap_or_else(|_| "quick".into());
            let mut i = 2;
            while i < args.len() {
                if args[i] == "--tier" && i + 1 < args.len() {
                    tier = args[i + 1].clone();
                    i += 1;
                }
                i += 1;
            }
            let seed: u64 = std::env::var("VERIF_SEED")
                .ok()
                .and_then(|s| s.trim().parse::<i128>().ok())
                .map(|v| v as u64)
                .unwrap_or(20261002);
            let o = controller::check(&tier, seed);
            std::process::exit(o.exit);
        }
        "replay" => {
            let path = args.get(2).unwrap_or_else(|| usage());
            std::process::exit(minimise::replay_file(path));
        }
        "jobs" => {
            // debugging aid: print the job lines of one batch (with logs requested)
            let base: u64 = args[2].parse().unwrap();
            let k: usize = args[3].parse().unwrap();
            let batch: usize = args[4].parse().unwrap();
            let total: usize = args[5].parse().unwrap();
            let dense = args.get(6).map_or(false, |s| s == "dense");
            let b = if dense { controller::dense_base(base) } else { base };
            let batch = if dense { controller::DENSE_BATCH } else { batch };
            for mut j in controller::batch_jobs_x(b, k, batch, total, dense) {
                j.log = true;
                println!("{}", serde_json::to_string(&j).unwrap());
            }
        }
        "clocktest" => {
            println!("clock seam works: {}", clock::selftest());
            println!("timed waits on simulated threads keep their real length: {}", clock::selftest_timed_wait());
            // environment seam: inside a (pretend) call on a simulated thread the plan answers
            clock::set_sim_thread(true);
            envseam::set_plan(12345);
            hook::begin_call(0);
            let inside = std::env::var("SIM_ENVSEAM_PROBE_LC_ALL").ok();
            hook::end_call();
            envseam::set_plan(0);
            clock::set_sim_thread(false);
            let outside = std::env::var("SIM_ENVSEAM_PROBE_LC_ALL").ok();
            println!("env seam: inside a call {:?}, outside {:?}, counts {:?}", inside, outside, envseam::take_counts());
            println!("cpu-count seam works: {}", envseam::selftest_cpus());
            println!("env passthrough: PATH is {}", if std::env::var("PATH").map_or(false, |p| !p.is_empty()) { "visible" } else { "MISSING" });
        }
        "probe" => {
            let p = probe::send_sync_probe();
            println!("Regex: Send={} Sync={} (probe selftest {})", p.0, p.1, probe::selftest());
        }
        "astgen" => {
            // show what the pattern generator produces
            let seed: u64 = args.get(2).and_then(|s| s.parse().ok()).unwrap_or(1);
            let n: u64 = args.get(3).and_then(|s| s.parse().ok()).unwrap_or(10);
            quiet_panics();
            let mut ok = 0;
            for i in 0..n {
                let mut r = rng::Rng::stream(seed, i);
                let f = astgen::family(&mut r);
                let c = exec::compile(&f.key);
                if c.is_ok() { ok += 1; }
                println!("{:?} {:?} -> {} inputs {:?}", f.key.p, f.key.f, if c.is_ok() { "ok" } else { "ERR" }, f.inputs);
            }
            println!("{} of {} compile", ok, n);
        }
        "mark-corpus" => {
            // one-off provenance tool: add "err": true to families whose key does not compile
            let text = std::fs::read_to_string(&args[2]).expect("read");
            for line in text.lines() {
                let mut v: serde_json::Value = serde_json::from_str(line).expect("json");
                let key = model::Key {
                    xsd: v["xsd"].as_bool().unwrap_or(false),
                    p: v["p"].as_str().unwrap_or("").to_string(),
                    f: v["f"].as_str().unwrap_or("").to_string(),
                };
                quiet_panics();
                let ok = std::panic::catch_unwind(|| exec::compile(&key).is_ok()).unwrap_or(false);
                v["err"] = serde_json::Value::Bool(!ok);
                println!("{}", serde_json::to_string(&v).unwrap());
            }
        }
        _ => usage(),
    }
}
