//! Known findings: genuine defects recorded rather than repaired. The file is committed
//! under /verif and never written at run time. Format, one per line:
//!   KNOWN-FINDING: property=C18 class=<class> request=<exact request text> :: <what fails>
//!   fixed: property=C18 <commit> <what failed>          (suppresses nothing)

use crate::model::Violation;

pub struct Known {
    pub id: usize,
    pub class: String,
    pub request: String,
    pub text: String,
}

impl Known {
    pub fn matches(&self, v: &Violation) -> bool {
        v.class == self.class && v.request == self.request
    }
}

pub fn load() -> Vec<Known> {
    let text = std::fs::read_to_string("/verif/known_findings.txt").unwrap_or_default();
    let mut out = Vec::new();
    for (i, line) in text.lines().enumerate() {
        let line = line.trim();
        if let Some(rest) = line.strip_prefix("KNOWN-FINDING: property=C18 ") {
            let (head, text) = match rest.split_once(" :: ") {
                Some(x) => x,
                None => continue,
            };
            let head = match head.strip_prefix("class=") {
                Some(h) => h,
                None => continue,
            };
            let (class, request) = match head.split_once(" request=") {
                Some(x) => x,
                None => continue,
            };
            out.push(Known {
                id: i,
                class: class.to_string(),
                request: request.to_string(),
                text: format!("class={} request={} :: {}", class, request, text),
            });
        }
    }
    out
}
