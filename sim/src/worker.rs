//! Worker process: executes the runs it is told to (seed or explicit spec), one JSON
//! record per line on stdout. The first run of a worker is a cold-start run (F7).

use crate::gen;
use crate::model::{RunRecord, RunSpec};
use crate::refsrv::RefClient;
use crate::run;
use serde::{Deserialize, Serialize};
use std::io::{BufRead, Write};
use std::sync::{Arc, Mutex};

#[derive(Serialize, Deserialize, Debug, Clone, Default)]
pub struct Job {
    #[serde(default)]
    pub seed: u64,
    #[serde(default)]
    pub flavor: String,
    #[serde(default)]
    pub log: bool,
    #[serde(default)]
    pub want_spec: bool,
    #[serde(default)]
    pub spec: Option<RunSpec>,
    #[serde(default)]
    pub want_trace: bool,
    /// Run this job in the dense build (basic-block edges as scheduling points).
    #[serde(default)]
    pub dense: bool,
}

pub fn setup_process() {
    crate::quiet_panics();
    crate::hook::install();
    crate::hashkeys::install();
}

pub fn exec_job(
    job: &Job,
    refc: &Arc<Mutex<RefClient>>,
    pool: Option<&run::CallerPool>,
) -> run::RunOutput {
    let spec = match &job.spec {
        Some(s) => s.clone(),
        None => gen::generate(job.seed, if job.flavor.is_empty() { "n" } else { &job.flavor }),
    };
    run::run(spec, refc, pool, job.log, job.want_spec, job.want_trace)
}

/// Re-exec this worker with address-space randomisation switched off, so that heap
/// addresses — and with them the probe sequences of address-keyed hash maps inside the
/// library, which the dense build sees as basic-block edges — are the same in every
/// execution of the same batch. Best effort: if it cannot be done the worker runs as it is.
fn disable_aslr_and_reexec() {
    const ADDR_NO_RANDOMIZE: libc::c_ulong = 0x0040000;
    if std::env::var_os("SIM_NOASLR").is_some() {
        return;
    }
    unsafe {
        let cur = libc::personality(0xffff_ffff);
        if cur == -1 {
            return;
        }
        if (cur as libc::c_ulong) & ADDR_NO_RANDOMIZE != 0 {
            return;
        }
        if libc::personality(cur as libc::c_ulong | ADDR_NO_RANDOMIZE) == -1 {
            return;
        }
    }
    use std::os::unix::process::CommandExt;
    let exe = match std::env::current_exe() {
        Ok(e) => e,
        Err(_) => return,
    };
    let args: Vec<String> = std::env::args().skip(1).collect();
    // exec only returns on failure
    let _ = std::process::Command::new(exe)
        .args(args)
        .env("SIM_NOASLR", "1")
        // no per-thread malloc cache: a chunk freed by another thread than the one that
        // allocated it goes back to its own arena instead of into the freeing thread's
        // cache, so the addresses a caller thread gets do not depend on what the driver
        // thread allocated (whose sizes vary with timing and with reference-lane state)
        .env("GLIBC_TUNABLES", "glibc.malloc.tcache_count=0")
        .exec();
}

pub fn worker_main(sock: &str) -> ! {
    disable_aslr_and_reexec();
    setup_process();
    let refc = match RefClient::connect(sock) {
        Ok(c) => Arc::new(Mutex::new(c)),
        Err(e) => {
            eprintln!("worker: cannot reach reference server at {}: {}", sock, e);
            std::process::exit(2);
        }
    };
    let pool = run::CallerPool::new(crate::model::MAX_THREADS);
    let stdin = std::io::stdin();
    let stdout = std::io::stdout();
    let mut out = std::io::BufWriter::new(stdout.lock());
    for line in stdin.lock().lines() {
        let line = match line {
            Ok(l) => l,
            Err(_) => break,
        };
        if line.trim().is_empty() {
            continue;
        }
        let job: Job = match serde_json::from_str(&line) {
            Ok(j) => j,
            Err(e) => {
                let rec = RunRecord {
                    harness_error: Some(format!("bad job line: {}", e)),
                    ..Default::default()
                };
                let _ = writeln!(out, "{}", serde_json::to_string(&rec).unwrap());
                let _ = out.flush();
                continue;
            }
        };
        let o = exec_job(&job, &refc, Some(&pool));
        let _ = writeln!(out, "{}", serde_json::to_string(&o.rec).unwrap());
        let _ = out.flush();
        if o.poisoned {
            std::process::exit(3);
        }
    }
    let _ = out.flush();
    std::process::exit(0);
}
