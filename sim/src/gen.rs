//! Seed -> RunSpec. Everything about a run (configuration, scripts, fault plan, hash-key
//! stream, scheduler stream) derives from one integer through independent sub-streams.

use crate::corpus::{blocks, corpus, generic_inputs, generic_repls, Family};
use crate::model::*;
use crate::rng::{mix, Rng};
use regexml::verif::site;

/// Sites at which a context switch may be injected (everything except the table-init probe).
pub fn all_sites_mask() -> u128 {
    let mut m: u128 = 0;
    for s in 1..site::LIMIT {
        if s != site::BLOCK_TABLE_INIT {
            m |= 1u128 << s;
        }
    }
    m
}

/// Synthesise a block-escape family around block index `anchor` (neighbours in name order
/// have similar names, which is what a wrongly keyed cache of the process-wide table
/// would confuse).
fn synth_block_family(rng: &mut Rng, anchor: usize, near_miss_pct: u64) -> Family {
    let b = blocks();
    let near = |rng: &mut Rng| -> usize {
        if rng.chance(75, 100) {
            (anchor + b.len() + rng.below(5) - 2) % b.len()
        } else {
            rng.below(b.len())
        }
    };
    let (ia, ib) = (near(rng), near(rng));
    let (a0, bb) = (&b[ia], &b[ib]);
    // now and then a near-miss spelling of the name (the table knows names with spaces and
    // underscores removed only): an error path that goes through the same table
    let a_name = if rng.chance(near_miss_pct, 100) && a0.0.len() > 3 {
        let cs: Vec<char> = a0.0.chars().collect();
        let at = 1 + rng.below(cs.len() - 1);
        let mut s: String = cs[..at].iter().collect();
        s.push(if rng.chance(50, 100) { '_' } else { ' ' });
        s.extend(cs[at..].iter());
        s
    } else {
        a0.0.clone()
    };
    let a = &(a_name, a0.1, a0.2);
    let ch = |cp: u32| char::from_u32(cp).unwrap_or('?');
    let p = match rng.below(6) {
        0 => format!("\\p{{Is{}}}+", a.0),
        1 => format!("\\P{{Is{}}}", a.0),
        2 => format!("[\\p{{Is{}}}\\p{{Is{}}}]+", a.0, bb.0),
        3 => format!("\\p{{Is{}}}\\p{{Is{}}}?", a.0, bb.0),
        4 => format!("(\\p{{Is{}}}+)|(\\p{{Is{}}}+)", a.0, bb.0),
        _ => format!("[\\p{{Is{}}}-[\\p{{Is{}}}]]+", a.0, bb.0),
    };
    let cs = [ch(a.1), ch(a.2), ch(bb.1), ch(bb.2)];
    let inputs = vec![
        format!("{}{}", cs[0], cs[1]),
        format!("{}{}", cs[2], cs[3]),
        format!("x{}{}y{}", cs[0], cs[2], cs[1]),
        format!("{}{}{}{}", cs[3], cs[2], cs[1], cs[0]),
        format!("{} {}", cs[0], cs[3]),
        "abc".to_string(),
    ];
    Family {
        key: Key {
            xsd: rng.chance(15, 100),
            p,
            f: String::new(),
        },
        inputs,
        repls: vec!["<$0>".into(), "$2$1".into()],
        blocky: true,
        hand: false,
        err: false,
    }
}

fn pick_family(rng: &mut Rng, blocky: bool, anchor: usize) -> Family {
    if (blocky && rng.chance(60, 100)) || (!blocky && rng.chance(4, 100)) {
        return synth_block_family(rng, anchor, if blocky { 25 } else { 10 });
    }
    if !blocky && rng.chance(14, 100) {
        return crate::astgen::family(rng);
    }
    pick_family0(rng, blocky).clone()
}

fn pick_family0<'a>(rng: &mut Rng, blocky: bool) -> &'a Family {
    let c = corpus();
    for _ in 0..8 {
        let idx = if blocky && rng.chance(85, 100) {
            *rng.pick(&c.blocky)
        } else if rng.chance(60, 100) {
            *rng.pick(&c.hand)
        } else {
            *rng.pick(&c.repo)
        };
        // error-path families are kept, but rarely
        if !c.families[idx].err || rng.chance(6, 100) {
            return &c.families[idx];
        }
    }
    &c.families[*rng.pick(&c.ok)]
}

/// Derive another input from corpus inputs (histories need *different* inputs on one object).
fn mutate(rng: &mut Rng, s: &str, other: &str) -> String {
    let cs: Vec<char> = s.chars().collect();
    let out: String = match rng.below(10) {
        // similar haystacks of the same length (what a weakly keyed cache would confuse)
        7 | 8 if !cs.is_empty() => {
            let mut c2 = cs.clone();
            let i = rng.below(c2.len());
            c2[i] = *rng.pick(&['a', 'b', 'x', 'z', 'A', '-', '0']);
            c2.into_iter().collect()
        }
        9 if cs.len() >= 2 => {
            let mut c2 = cs.clone();
            let i = rng.below(c2.len() - 1);
            c2.swap(i, i + 1);
            c2.into_iter().collect()
        }
        0 => format!("{}{}", s, s),
        1 => cs.iter().skip(1).collect(),
        2 => cs.iter().take(cs.len().saturating_sub(1)).collect(),
        3 => format!("x{}", s),
        4 => format!("{} {}", s, other),
        5 => cs.iter().rev().collect(),
        _ => format!("{}\n{}", other, s),
    };
    out.chars().take(40).collect()
}

fn pick_input(rng: &mut Rng, fam: &Family, others: &[&Family]) -> String {
    let base = pick_input0(rng, fam, others);
    if rng.chance(14, 100) {
        let other = pick_input0(rng, fam, others);
        mutate(rng, &base, &other)
    } else {
        base
    }
}

fn pick_input0(rng: &mut Rng, fam: &Family, others: &[&Family]) -> String {
    let r = rng.below(100);
    if r < 86 && !fam.inputs.is_empty() {
        rng.pick(&fam.inputs).clone()
    } else if r < 94 && !others.is_empty() {
        let o = rng.pick(others);
        if o.inputs.is_empty() {
            rng.pick(generic_inputs()).to_string()
        } else {
            rng.pick(&o.inputs).clone()
        }
    } else {
        rng.pick(generic_inputs()).to_string()
    }
}

fn pick_repl(rng: &mut Rng, fam: &Family) -> String {
    if !fam.repls.is_empty() && rng.chance(70, 100) {
        rng.pick(&fam.repls).clone()
    } else {
        rng.pick(generic_repls()).to_string()
    }
}

fn rng_pick_key(fams: &[&Family], rng: &mut Rng) -> Key {
    fams[rng.below(fams.len())].key.clone()
}

fn vary_key(rng: &mut Rng, k: &Key) -> Key {
    // occasionally perturb the flags (another object with the same pattern text)
    let mut k = k.clone();
    match rng.below(10) {
        0 => {
            if k.f.contains('i') {
                k.f = k.f.replace('i', "");
            } else {
                k.f.push('i');
            }
        }
        1 => {
            if !k.f.contains('m') {
                k.f.push('m');
            }
        }
        2 => k.xsd = !k.xsd,
        _ => {}
    }
    k
}

/// Soak flavour: few objects, very long histories. For each object: a probe call A, then
/// d-1 identical other calls B, then A again, with d on and around 2^8 and 2^16 (call
/// counters, generation stamps and similar per-object bookkeeping wrap there).
pub fn generate_soak(seed: u64) -> RunSpec {
    let mut rng = Rng::stream(seed, 0x50A4);
    let c = corpus();
    // prefer the hand-written families for the zero-length-match memo / captures
    let fam = loop {
        let idx = if rng.chance(70, 100) {
            c.hand[rng.below(20.min(c.hand.len()))]
        } else {
            *rng.pick(&c.hand)
        };
        let f = &c.families[idx];
        if !f.err && f.inputs.iter().filter(|s| !s.is_empty()).count() >= 2 {
            break f;
        }
    };
    let mut ins: Vec<&String> = fam.inputs.iter().filter(|s| !s.is_empty()).collect();
    ins.sort_by_key(|s| s.chars().count());
    let short = ins[0].clone();
    let long = ins[ins.len() - 1].clone();
    let dists = [256usize, 65536, 65535, 65537, 255, 257, 32768, 4096, 65534];
    let slots = 4;
    let mut ops = Vec::new();
    for slot in 0..slots {
        ops.push(Op::Compile {
            slot,
            key: fam.key.clone(),
            drop_first: false,
        });
    }
    // three runs in four put every object at the 2^16 distance (four different probes per
    // run); the fourth uses the cheap small distances and off-by-one hedges
    let big = rng.chance(75, 100);
    for slot in 0..slots {
        let d = if big {
            if slot == 3 && rng.chance(50, 100) {
                *rng.pick(&[65535usize, 65537, 65534])
            } else {
                65536
            }
        } else {
            match slot {
                0 => 256,
                _ => *rng.pick(&dists[4..8]),
            }
        };
        let probe_kind = rng.below(4);
        // probe haystacks: the family's inputs and variants that shift the positions visited
        let base = if rng.chance(50, 100) {
            long.clone()
        } else {
            rng.pick(&fam.inputs).clone()
        };
        let a_input = match rng.below(5) {
            0 => format!("x{}", base),
            1 => format!("xxxx{}", base),
            2 => format!("{}-{}", base, short),
            3 => format!("{} {}", short, base),
            _ => base,
        };
        let b_input = if rng.chance(75, 100) {
            short.clone()
        } else {
            rng.pick(&fam.inputs).clone()
        };
        let repl = pick_repl(&mut rng, fam);
        let probe = |ops: &mut Vec<Op>| match probe_kind {
            0 => ops.push(Op::IsMatch {
                slot,
                input: a_input.clone(),
            }),
            1 => ops.push(Op::ReplaceAll {
                slot,
                input: a_input.clone(),
                repl: repl.clone(),
            }),
            2 => {
                ops.push(Op::Tokenize {
                    slot,
                    input: a_input.clone(),
                    it: 0,
                });
                ops.push(Op::Drain { it: 0 });
                ops.push(Op::DropIter { it: 0 });
            }
            _ => {
                ops.push(Op::Analyze {
                    slot,
                    input: a_input.clone(),
                    it: 0,
                });
                ops.push(Op::Drain { it: 0 });
                ops.push(Op::DropIter { it: 0 });
            }
        };
        probe(&mut ops);
        ops.push(Op::Soak {
            slot,
            method: if slot < 2 || rng.chance(80, 100) {
                Method::IsMatch
            } else {
                Method::ReplaceAll
            },
            input: b_input,
            repl: "x".into(),
            n: d - 1,
        });
        probe(&mut ops);
        // and once more right after the boundary
        probe(&mut ops);
    }
    RunSpec {
        seed,
        flavor: "s".into(),
        slots,
        policy: Policy::Seq,
        mask_lo: 0,
        mask_hi: 0,
        sched_seed: mix(seed, 0x5EED_5C4E),
        hash_stream: mix(seed, 0x4A54_4B45),
        setup_ops: 0,
        scripts: vec![ops],
        crashes: vec![],
        decisions: None,
        fresh_threads: rng.chance(50, 100),
        late: None,
        jumps: vec![],
        exit_list_first: false,
        env_plan: 0,
        reuse_input_buffer: false,
    }
}

pub fn generate(seed: u64, flavor: &str) -> RunSpec {
    if flavor == "s" {
        return generate_soak(seed);
    }
    let cold_flavor = flavor == "b";
    let mut rng = Rng::stream(seed, if cold_flavor { 0xB10C } else { 0x0001 });
    // block-table heavy workload: always for cold-start runs, and for a share of the others
    // (history on the process-wide table needs several such runs in one process)
    let blocky = cold_flavor || rng.chance(8, 100);
    // --- shape
    let threads = match rng.below(100) {
        0..=21 => 1,
        22..=56 => 2,
        57..=83 => 3,
        _ => 4,
    };
    let threads = if cold_flavor { threads.max(2) } else { threads };
    // wide style: more caller threads, more objects, long haystacks than the ordinary bounds
    let wide = !cold_flavor && rng.chance(4, 100);
    let threads = if wide { rng.range(5, MAX_THREADS) } else { threads };
    let slots = match rng.below(100) {
        0..=39 => 1,
        40..=74 => 2,
        75..=89 => 3,
        _ => 4,
    };
    // compile-storm style: construction-heavy scripts (many compilations of several distinct
    // keys racing with each other and with calls), for state shared between compilations
    let storm = !cold_flavor && rng.chance(12, 100);
    let slots = if wide { rng.range(5, MAX_SLOTS) } else { slots };
    let nfam = if storm || wide { rng.range(3, 5) } else { rng.range(1, 3) };
    let anchor = rng.below(blocks().len());
    let fams_owned: Vec<Family> = (0..nfam)
        .map(|_| pick_family(&mut rng, blocky, anchor))
        .collect();
    let fams: Vec<&Family> = fams_owned.iter().collect();
    // slot -> family (statically expected occupant)
    let slot_fam: Vec<usize> = (0..slots).map(|_| rng.below(nfam)).collect();
    let slot_key: Vec<Key> = slot_fam
        .iter()
        .map(|&f| {
            if rng.chance(85, 100) {
                fams[f].key.clone()
            } else {
                vary_key(&mut rng, &fams[f].key)
            }
        })
        .collect();

    // --- policy and preemptible sites
    let policy = if threads == 1 {
        Policy::Seq
    } else if storm && rng.chance(50, 100) {
        // one caller frozen in the middle of an operation (often a compilation) while the
        // others run whole operations: the shape multi-step races in construction need
        Policy::Stall {
            victim: rng.below(threads),
            at: rng.range(1, 12) as u32,
            p: *rng.pick(&[100u32, 400]),
            release: *rng.pick(&[0u32, 0, 2, 5, 9]),
        }
    } else {
        match rng.below(100) {
            0..=9 => Policy::Seq,
            10..=49 => Policy::Random {
                p: *rng.pick(&[20u32, 100, 300, 700]),
            },
            50..=69 => Policy::Pct {
                d: rng.range(1, 3) as u32,
                horizon: *rng.pick(&[30u32, 100, 300]),
            },
            70..=84 => Policy::OpGranular {
                p: *rng.pick(&[200u32, 500, 900]),
            },
            _ => Policy::Stall {
                victim: rng.below(threads),
                at: rng.range(1, 30) as u32,
                p: *rng.pick(&[100u32, 400]),
                release: *rng.pick(&[0u32, 0, 1, 3, 6]),
            },
        }
    };
    let mask: u128 = match &policy {
        Policy::OpGranular { .. } | Policy::Seq => 0,
        _ => {
            // buggify-style: a random subset of sites is preemptible in this run
            let all = all_sites_mask();
            match rng.below(4) {
                0 => all,
                1 => {
                    // state accessors only
                    let mut m = 0u128;
                    for s in 20..=31 {
                        m |= 1u128 << s;
                    }
                    m & all
                }
                _ => {
                    let mut m = 0u128;
                    let keep = rng.range(20, 80) as u64;
                    for s in 1..site::LIMIT {
                        if rng.chance(keep, 100) {
                            m |= 1u128 << s;
                        }
                    }
                    m & all
                }
            }
        }
    };

    // --- scripts
    let cold_style = cold_flavor && rng.chance(70, 100);
    let setup_ops = if cold_style {
        0
    } else if rng.chance(80, 100) {
        slots
    } else {
        0
    };
    // iterator-swarm style: many simultaneously live iterators on one object, dropped in
    // various orders, then many again (pools / free lists of matcher state have depths)
    let swarm = !cold_flavor && !storm && rng.chance(6, 100);
    let mut scripts: Vec<Vec<Op>> = Vec::new();
    // iterators handed to a thread (only effective when the iterator type is Send): the
    // receiver gets matching take + poll operations
    let mut pending_takes: Vec<usize> = vec![0; threads];
    for t in 0..threads {
        let mut ops: Vec<Op> = Vec::new();
        if swarm {
            if t == 0 && setup_ops > 0 {
                for (s, k) in slot_key.iter().enumerate() {
                    ops.push(Op::Compile {
                        slot: s,
                        key: k.clone(),
                        drop_first: false,
                    });
                }
            }
            let slot = rng.below(slots);
            let fam = fams[slot_fam[slot]];
            for phase in 0..2 {
                let k = rng.range(if phase == 0 { 9 } else { 8 }, MAX_ITERS);
                for it in 0..k {
                    let input = pick_input(&mut rng, fam, &fams);
                    ops.push(if rng.chance(50, 100) {
                        Op::Tokenize { slot, input, it }
                    } else {
                        Op::Analyze { slot, input, it }
                    });
                    if rng.chance(40, 100) {
                        ops.push(Op::Next {
                            it: rng.below(it + 1),
                            n: 1,
                        });
                    }
                }
                // a few plain calls while all of them are alive
                for _ in 0..rng.range(1, 3) {
                    ops.push(Op::IsMatch {
                        slot,
                        input: pick_input(&mut rng, fam, &fams),
                    });
                }
                if phase == 0 {
                    // drop them all: forward, backward or shuffled
                    let mut order: Vec<usize> = (0..k).collect();
                    match rng.below(3) {
                        0 => {}
                        1 => order.reverse(),
                        _ => {
                            for i in (1..order.len()).rev() {
                                let j = rng.below(i + 1);
                                order.swap(i, j);
                            }
                        }
                    }
                    for it in order {
                        ops.push(Op::DropIter { it });
                    }
                } else {
                    for it in 0..k {
                        if rng.chance(60, 100) {
                            ops.push(Op::Drain { it });
                        }
                    }
                }
            }
            scripts.push(ops);
            continue;
        }
        if t == 0 && setup_ops > 0 {
            for (s, k) in slot_key.iter().enumerate() {
                ops.push(Op::Compile {
                    slot: s,
                    key: k.clone(),
                    drop_first: false,
                });
            }
        }
        if cold_style {
            // every thread starts by compiling a block-escape pattern: concurrent first
            // use of the process-wide table when the process is cold
            let s = t % slots;
            ops.push(Op::Compile {
                slot: s,
                key: slot_key[s].clone(),
                drop_first: false,
            });
        }
        let n = rng.range(3, 12);
        // thread-local static knowledge of which iterator slots are (probably) open
        let mut open: [bool; NORMAL_ITERS] = [false; NORMAL_ITERS];
        let mut open_slot: [usize; NORMAL_ITERS] = [0; NORMAL_ITERS];
        let mut i = 0;
        while i < n && ops.len() < if storm { 24 } else { 16 } {
            i += 1;
            let slot = rng.below(slots);
            let fam = fams[slot_fam[slot]];
            let any_open = open.iter().any(|&o| o);
            if storm && rng.chance(45, 100) {
                let base = rng_pick_key(&fams, &mut rng);
                let k = if rng.chance(25, 100) {
                    vary_key(&mut rng, &base)
                } else {
                    base
                };
                ops.push(Op::Compile {
                    slot,
                    key: k,
                    drop_first: rng.chance(50, 100),
                });
                // use the new object at once
                let f2 = fams[rng.below(fams.len())];
                ops.push(Op::IsMatch {
                    slot,
                    input: pick_input(&mut rng, f2, &fams),
                });
                continue;
            }
            let r = rng.below(100);
            let op = match r {
                0..=21 => Op::IsMatch {
                    slot,
                    input: pick_input(&mut rng, fam, &fams),
                },
                22..=35 => Op::ReplaceAll {
                    slot,
                    input: pick_input(&mut rng, fam, &fams),
                    repl: pick_repl(&mut rng, fam),
                },
                36..=46 => {
                    let it = rng.below(NORMAL_ITERS);
                    open[it] = true;
                    open_slot[it] = slot;
                    Op::Tokenize {
                        slot,
                        input: pick_input(&mut rng, fam, &fams),
                        it,
                    }
                }
                47..=57 => {
                    let it = rng.below(NORMAL_ITERS);
                    open[it] = true;
                    open_slot[it] = slot;
                    Op::Analyze {
                        slot,
                        input: pick_input(&mut rng, fam, &fams),
                        it,
                    }
                }
                58..=77 if any_open => {
                    let cands: Vec<usize> = (0..NORMAL_ITERS).filter(|&k| open[k]).collect();
                    Op::Next {
                        it: *rng.pick(&cands),
                        n: rng.range(1, 3),
                    }
                }
                78..=84 if any_open => {
                    let cands: Vec<usize> = (0..NORMAL_ITERS).filter(|&k| open[k]).collect();
                    let it = *rng.pick(&cands);
                    ops.push(Op::Drain { it });
                    // F4: keep polling after the end
                    Op::Next {
                        it,
                        n: rng.range(1, 3),
                    }
                }
                85..=87 if any_open => {
                    let cands: Vec<usize> = (0..NORMAL_ITERS).filter(|&k| open[k]).collect();
                    let it = *rng.pick(&cands);
                    open[it] = false;
                    if rng.chance(20, 100) {
                        Op::ForgetIter { it }
                    } else {
                        Op::DropIter { it }
                    }
                }
                98 => Op::DebugFmt { slot },
                97 if threads >= 2 && any_open && rng.chance(60, 100) => {
                    let cands: Vec<usize> = (0..NORMAL_ITERS).filter(|&k| open[k]).collect();
                    let it = *rng.pick(&cands);
                    open[it] = false;
                    let mut to = rng.below(threads);
                    if to == t {
                        to = (to + 1) % threads;
                    }
                    pending_takes[to] += 1;
                    Op::GiveIter { it, to }
                }
                96 if threads >= 2 && rng.chance(60, 100) => {
                    let it = rng.below(NORMAL_ITERS);
                    open[it] = true;
                    ops.push(Op::TakeIter { it });
                    Op::Next {
                        it,
                        n: rng.range(1, 3),
                    }
                }
                99 if rng.chance(50, 100) => {
                    let input = pick_input(&mut rng, fam, &fams);
                    if rng.chance(50, 100) {
                        Op::AtExitCall {
                            slot,
                            method: Method::IsMatch,
                            input,
                            repl: String::new(),
                        }
                    } else {
                        Op::AtExitCall {
                            slot,
                            method: Method::ReplaceAll,
                            input,
                            repl: pick_repl(&mut rng, fam),
                        }
                    }
                }
                99 => {
                    let input = pick_input(&mut rng, fam, &fams);
                    if rng.chance(50, 100) {
                        Op::PanickingCall {
                            slot,
                            method: Method::IsMatch,
                            input,
                            repl: String::new(),
                        }
                    } else {
                        Op::PanickingCall {
                            slot,
                            method: Method::ReplaceAll,
                            input,
                            repl: pick_repl(&mut rng, fam),
                        }
                    }
                }
                88..=90 => Op::Recompile { slot },
                91..=95 => {
                    // another object: same key (twin), a flag variant, or another family
                    let k = match rng.below(4) {
                        0 => slot_key[slot].clone(),
                        1 => vary_key(&mut rng, &slot_key[slot]),
                        _ => rng.pick(&fams).key.clone(),
                    };
                    Op::Compile {
                        slot,
                        key: k,
                        drop_first: rng.chance(50, 100),
                    }
                }
                96..=97 => {
                    // F5: drop and immediately compile something else in its place
                    ops.push(Op::DropRegex { slot });
                    Op::Compile {
                        slot,
                        key: rng.pick(&fams).key.clone(),
                        drop_first: false,
                    }
                }
                _ => Op::IsMatch {
                    slot,
                    input: pick_input(&mut rng, fam, &fams),
                },
            };
            ops.push(op);
        }
        let _ = open_slot;
        scripts.push(ops);
    }
    for (t, n) in pending_takes.iter().enumerate() {
        for _ in 0..*n {
            let it = rng.below(NORMAL_ITERS);
            scripts[t].push(Op::TakeIter { it });
            scripts[t].push(if rng.chance(50, 100) {
                Op::Drain { it }
            } else {
                Op::Next {
                    it,
                    n: rng.range(1, 3),
                }
            });
        }
    }

    if wide {
        // long haystacks: several corpus inputs joined (up to ~160 characters)
        for sc in scripts.iter_mut() {
            for op in sc.iter_mut() {
                let input = match op {
                    Op::IsMatch { input, .. }
                    | Op::ReplaceAll { input, .. }
                    | Op::Tokenize { input, .. }
                    | Op::Analyze { input, .. } => input,
                    _ => continue,
                };
                if rng.chance(50, 100) {
                    let mut long = input.clone();
                    for _ in 0..rng.range(2, 4) {
                        let f = fams[rng.below(fams.len())];
                        long.push_str(if rng.chance(50, 100) { " " } else { "\n" });
                        long.push_str(&pick_input0(&mut rng, f, &fams));
                    }
                    *input = long.chars().take(160).collect();
                }
            }
        }
    }
    // large style: haystacks of 300 bytes … 66 KB (the ordinary bound is 40, wide 160
    // characters). Code that a change gates behind "the input is large" (buffer reuse above
    // a threshold, chunked search, a different strategy) is outside every other style. The
    // haystacks of one run share a target size just above a round threshold, and are made
    // by repeating the corpus input, so matches stay dense and calls stay inside the step
    // budget; the same large haystack recurs within the run (same-input-as-last-time paths).
    let large = !cold_flavor && !wide && rng.chance(3, 100);
    if large {
        let target = *rng.pick(&[300usize, 1_100, 4_200, 9_000, 17_000, 66_000]);
        for sc in scripts.iter_mut() {
            for op in sc.iter_mut() {
                let input = match op {
                    Op::IsMatch { input, .. }
                    | Op::ReplaceAll { input, .. }
                    | Op::Tokenize { input, .. }
                    | Op::Analyze { input, .. } => input,
                    _ => continue,
                };
                if rng.chance(60, 100) {
                    let unit = if input.is_empty() { " ".to_string() } else { input.clone() };
                    let sep = *rng.pick(&["", "", " ", "\n"]);
                    let mut long = String::with_capacity(target + unit.len() + 8);
                    while long.len() < target {
                        long.push_str(&unit);
                        long.push_str(sep);
                    }
                    if rng.chance(30, 100) {
                        // a tail that differs from the repeated unit
                        let f = fams[rng.below(fams.len())];
                        long.push_str(&pick_input0(&mut rng, f, &fams));
                    }
                    *input = long;
                }
            }
        }
    }
    // F11: simulated clock jumps inside calls, and simulated time passing between operations
    let mut jumps = Vec::new();
    if rng.chance(8, 100) {
        for _ in 0..rng.range(1, 3) {
            let t = rng.below(threads);
            if scripts[t].is_empty() {
                continue;
            }
            let op = rng.below(scripts[t].len());
            let poll = match &scripts[t][op] {
                Op::Next { n, .. } => rng.below(*n),
                Op::Drain { .. } => rng.below(3),
                _ => 0,
            };
            jumps.push(ClockJump {
                thread: t,
                op,
                poll,
                // early in the call, or somewhere in its first few thousand steps (a budget
                // that is only consulted every so many steps)
                step: 1 + if rng.chance(60, 100) {
                    rng.below(60)
                } else {
                    rng.below(4000)
                } as u64,
                ms: *rng.pick(&[5u64, 50, 500, 5_000, 3_600_000]),
            });
        }
        for (t, sc) in scripts.iter_mut().enumerate() {
            let mut i = if t == 0 { setup_ops.max(1) } else { 1 };
            while i < sc.len() {
                if rng.chance(25, 100) {
                    sc.insert(
                        i,
                        Op::ClockAdvance {
                            ms: *rng.pick(&[1u64, 20, 200, 2_000, 120_000]),
                        },
                    );
                    i += 1;
                }
                i += 1;
            }
        }
        // inserted operations shift the indices the plans refer to: recompute is not needed
        // for correctness (a plan that points at another operation is still a plan), but
        // set-up compiles must stay in front
    }
    let fresh_threads = rng.chance(30, 100);
    // F10: a late starter that only begins after another caller thread has exited
    let late = if threads >= 2 && rng.chance(if fresh_threads { 45 } else { 10 }, 100) {
        let mut v = vec![None; threads];
        let j = 1 + rng.below(threads - 1);
        v[j] = Some(rng.below(j));
        Some(v)
    } else {
        None
    };
    // --- fault plan: injected caller crashes (F2)
    let mut crashes = Vec::new();
    if rng.chance(30, 100) {
        let n = rng.range(1, 2);
        for _ in 0..n {
            let t = rng.below(threads);
            if scripts[t].is_empty() {
                continue;
            }
            let op = rng.below(scripts[t].len());
            let poll = match &scripts[t][op] {
                Op::Next { n, .. } => rng.below(*n),
                Op::Drain { .. } => rng.below(4),
                _ => 0,
            };
            // do not crash set-up compiles: the run would mostly be skipped
            if t == 0 && op < setup_ops {
                continue;
            }
            let step = 1 + if rng.chance(50, 100) {
                rng.below(12)
            } else {
                rng.below(120)
            } as u64;
            crashes.push(Crash {
                thread: t,
                op,
                poll,
                step,
            });
        }
    }

    RunSpec {
        seed,
        flavor: flavor.to_string(),
        slots,
        policy,
        mask_lo: mask as u64,
        mask_hi: (mask >> 64) as u64,
        sched_seed: mix(seed, 0x5EED_5C4E),
        hash_stream: mix(seed, 0x4A54_4B45),
        setup_ops,
        scripts,
        crashes,
        decisions: None,
        fresh_threads,
        late,
        jumps,
        exit_list_first: rng.chance(50, 100),
        env_plan: if rng.chance(30, 100) {
            mix(seed, 0xE2_0000) | 1
        } else {
            0
        },
        reuse_input_buffer: rng.chance(50, 100),
    }
}
