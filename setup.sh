#!/bin/bash
# Offline build of the harness (and, through the path dependency, of /repo/regexml with
# the verif-hooks feature) into /verif/target. Nothing is kept under /tmp.
set -e
cd /verif/sim
export CARGO_NET_OFFLINE=true
mkdir -p /verif/target /verif/evidence /verif/replays
cargo build --release --offline
RUSTFLAGS="--cfg fuzzing -Cpasses=sancov-module -Cllvm-args=-sanitizer-coverage-level=3 -Cllvm-args=-sanitizer-coverage-trace-pc-guard" cargo build --release --offline --target-dir /verif/target/dense || echo "dense build failed; the dense stage will be skipped"
/verif/target/x86_64-unknown-linux-gnu/release/sim probe
/verif/target/x86_64-unknown-linux-gnu/release/sim clocktest
