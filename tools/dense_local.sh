#!/bin/bash
# tools/dense_local.sh <patch|-> <seed0> <nruns>: experiment helper: build normal + dense binaries
# against /repo (optionally with a patch applied), run <nruns> seeds in ONE dense worker process.
P="$1"; S="${2:-1}"; N="${3:-3000}"
cd /repo || exit 2
[ "$P" != "-" ] && { git apply "$P" || exit 2; }
cd /verif/sim
CARGO_NET_OFFLINE=true cargo build --release --offline >/dev/null 2>&1
RUSTFLAGS="--cfg fuzzing -Cpasses=sancov-module -Cllvm-args=-sanitizer-coverage-level=3 -Cllvm-args=-sanitizer-coverage-trace-pc-guard" CARGO_NET_OFFLINE=true cargo build --release --offline --target-dir /verif/target/dense >/dev/null 2>&1
B=/verif/target/x86_64-unknown-linux-gnu/release/sim; D=/verif/target/dense/x86_64-unknown-linux-gnu/release/sim
rm -f /verif/target/run/e.sock; $B refsrv /verif/target/run/e.sock & PID=$!
sleep 0.3
$D local /verif/target/run/e.sock $S $N n | grep -E "^seed|runs," | cut -c1-300 | tail -6
kill $PID
git -C /repo checkout -- . ; git -C /repo clean -fdq regexml/src
