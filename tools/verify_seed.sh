#!/bin/bash
# (needs the scratch worktree: git -C /repo worktree add --detach /tmp/wt HEAD; remove it afterwards with git -C /repo worktree remove --force /tmp/wt && rm -rf /tmp/wt-target)
# tools/verify_seed.sh <patch.diff> <demo.rs> : in the clean scratch worktree /tmp/wt confirm that
#  (1) the patch applies, (2) the 1032-test baseline passes with it, (3) the demo fails with it,
#  (4) the demo passes without it. Leaves /tmp/wt clean.
P="$1"; D="$2"; W=/tmp/wt; T=/tmp/wt-target
cd $W || exit 2
git checkout -q -- . ; git clean -fdq regexml
git apply "$P" || { echo "PATCH DOES NOT APPLY"; exit 1; }
echo "--- baseline with patch:"
CARGO_TARGET_DIR=$T cargo nextest run --workspace --no-fail-fast --tool-config-file pb:/w/lib/nextest.toml --profile pb --test-threads 8 --offline 2>&1 | grep -E "Summary|error(\[|:)" | head -5
DN=$(basename "$D" .rs)
cp "$D" regexml/tests/$DN.rs
echo "--- demo with patch:"
CARGO_TARGET_DIR=$T cargo nextest run -p regexml --test $DN --no-fail-fast --offline 2>&1 | grep -E "Summary|FAIL|error(\[|:)" | sort -u | head -8
git checkout -q -- .
echo "--- demo without patch:"
CARGO_TARGET_DIR=$T cargo nextest run -p regexml --test $DN --no-fail-fast --offline 2>&1 | grep -E "Summary|FAIL|error(\[|:)" | sort -u | head -8
rm -f regexml/tests/$DN.rs
git status --short | head -3
