#!/bin/bash
# tools/matrix.sh [runs]: run the quick check (with a reduced number of runs) against every
# mutant and seeded change, one after the other, and print one line per patch.
RUNS="${1:-20000}"
cd /verif
for p in mutants/*.diff seeded/*/patch.diff; do
  name=$(echo "$p" | sed 's#mutants/##; s#seeded/##; s#/patch.diff##; s#\.diff##')
  out=$(tools/try_patch.sh /verif/$p $RUNS 2>&1)
  rc=$(echo "$out" | grep -o "exit=[0-9]*" | tail -1)
  nv=$(echo "$out" | grep -c "^VIOLATION")
  nc=$(echo "$out" | grep -c "violation candidate")
  w=$(echo "$out" | grep -c "^WARNING")
  h=$(echo "$out" | grep -c "HARNESS-ERROR")
  printf "%-40s %s violations=%s candidates=%s warnings=%s harness_errors=%s\n" "$name" "$rc" "$nv" "$nc" "$w" "$h"
done
git -C /repo status --short | head -3
