#!/bin/bash
# run the repository's baseline test command in a scratch worktree ($1), print pass/fail counts
cd "$1" || exit 2
CARGO_TARGET_DIR=${2:-/tmp/wt-target} cargo nextest run --workspace --no-fail-fast --tool-config-file pb:/w/lib/nextest.toml --profile pb --test-threads 8 --offline 2>&1 | grep -E "Summary|FAIL|error(\[|:)" | head -20
