#!/bin/bash
# tools/try_patch.sh <patch> [runs]: apply a patch to /repo, run the quick check, undo.
P="$1"; RUNS="${2:-20000}"
cd /repo || exit 2
if [ -n "$(git status --porcelain --untracked-files=no)" ]; then echo "/repo not clean" >&2; exit 2; fi
git apply "$P" || { echo "patch does not apply" >&2; exit 2; }
cd /verif
VERIF_RUNS=$RUNS ./check C18 --tier quick > /verif/target/try_patch.log 2>&1
RC=$?
git -C /repo checkout -- .
git -C /repo clean -fdq regexml/src 2>/dev/null
grep -E "VIOLATION|KNOWN-FINDING|HARNESS-ERROR|violation candidate|explored|reach|soak stage|dense stage|WARNING|runs with at least" /verif/target/try_patch.log | head -20
echo "exit=$RC"
