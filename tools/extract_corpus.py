#!/usr/bin/env python3
"""One-off extractor: harvest (dialect, pattern, flags) families with their inputs and
replacement strings from the repository's own test files into sim/corpus_repo.jsonl.
The output is frozen (committed); this script is kept for provenance only."""
import re, json, glob, sys, collections
LIT = r'(r#"(?:.*?)"#|r"(?:[^"]*)"|"(?:[^"\\]|\\.)*")'
def unlit(s):
    if s.startswith('r#"'): return s[3:-2]
    if s.startswith('r"'): return s[2:-1]
    body = s[1:-1]
    out=[];i=0
    while i < len(body):
        c=body[i]
        if c=='\\':
            n=body[i+1]
            if n=='n': out.append('\n'); i+=2
            elif n=='t': out.append('\t'); i+=2
            elif n=='r': out.append('\r'); i+=2
            elif n=='0': out.append('\0'); i+=2
            elif n in '\\"\'': out.append(n); i+=2
            elif n=='u':
                j=body.index('}',i); out.append(chr(int(body[i+3:j],16))); i=j+1
            elif n=='x': out.append(chr(int(body[i+2:i+4],16))); i+=4
            elif n=='\n':
                i+=2
                while i<len(body) and body[i] in ' \t\n': i+=1
            else: raise ValueError(body)
        else: out.append(c); i+=1
    return ''.join(out)
fams=collections.OrderedDict()
for f in sorted(glob.glob('/repo/regexml/tests/*.rs')):
    src=open(f).read()
    for fn in re.split(r'\n#\[test\]', src):
        m=re.search(r'Regex::(xpath|xsd)\(\s*'+LIT+r'\s*,\s*'+LIT+r'\s*,?\s*\)', fn, re.S)
        if not m: continue
        try:
            key=(m.group(1)=='xsd', unlit(m.group(2)), unlit(m.group(3)))
        except Exception as e: continue
        fam=fams.setdefault(key,{'inputs':[], 'repls':[]})
        for mm in re.finditer(r'\.(is_match|tokenize|analyze)\(\s*'+LIT+r'\s*,?\s*\)', fn, re.S):
            try: s=unlit(mm.group(2))
            except Exception: continue
            if s not in fam['inputs']: fam['inputs'].append(s)
        for mm in re.finditer(r'\.replace_all\(\s*'+LIT+r'\s*,\s*'+LIT+r'\s*,?\s*\)', fn, re.S):
            try: s=unlit(mm.group(1)); r=unlit(mm.group(2))
            except Exception: continue
            if s not in fam['inputs']: fam['inputs'].append(s)
            if r not in fam['repls']: fam['repls'].append(r)
out=open('/verif/sim/corpus_repo.jsonl','w')
n=0
for (xsd,p,fl),v in fams.items():
    if len(p)>60: continue
    ins=[s for s in v['inputs'] if len(s)<=40][:8]
    if not ins and v['inputs']: ins=[v['inputs'][0][:32]]
    out.write(json.dumps({'xsd':xsd,'p':p,'f':fl,'in':ins,'re':[r for r in v['repls'] if len(r)<=24][:4]},ensure_ascii=False)+'\n'); n+=1
print(n,'families')
