#!/bin/bash
# tools/prove_determinism.sh [seeds...]: for each VERIF_SEED run 20 000 simulated executions and
# re-execute EVERY batch twice more (other worker processes; 16 and 4 workers), comparing the
# complete event logs. Any difference that is not explained by a violation or by the library
# itself taking another path is a harness error (exit 2).
cd /verif || exit 2
(cd sim && CARGO_NET_OFFLINE=true cargo build --release --offline >/dev/null 2>&1) || exit 2
for s in "${@:-1 2 3}"; do
  for seed in $s; do
    VERIF_SEED=$seed VERIF_RUNS=20000 VERIF_REDO_BATCHES=50 VERIF_SOAK_RUNS=4 /verif/target/x86_64-unknown-linux-gnu/release/sim check --tier quick > /verif/target/determinism.$seed.log 2>&1
    rc=$?
    echo "seed=$seed exit=$rc $(grep 'determinism re-execution' /verif/target/determinism.$seed.log)"
  done
done
