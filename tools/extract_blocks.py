#!/usr/bin/env python3
"""One-off: harvest (lookup name, start, end) of every Unicode block from the repository's
generated table into sim/corpus_blocks.tsv (frozen, committed). Only blocks reachable by name
through \\p{IsName} are kept (those in ALL_BLOCKS); surrogate ranges are skipped because no
Rust char lies in them."""
import re
src=open('/repo/regexml/src/block.rs').read()
consts={}
for m in re.finditer(r'pub\(crate\) const (\w+): Block = Block \{\s*name: "([^"]+)",\s*start: (0x[0-9A-Fa-f]+),\s*end: (0x[0-9A-Fa-f]+),', src):
    consts[m.group(1)]=(m.group(2),int(m.group(3),16),int(m.group(4),16))
allb=re.search(r'ALL_BLOCKS: &\[Block\] = &\[(.*?)\];', src, re.S).group(1)
names=[n.strip() for n in allb.split(',') if n.strip()]
out=open('/verif/sim/corpus_blocks.tsv','w')
n=0
for c in names:
    name,s,e=consts[c]
    if 0xD800<=s<=0xDFFF: continue
    out.write(f"{name.replace(' ','').replace('_','')}\t{s}\t{e}\n"); n+=1
print(n,'blocks')
